//! Shared monitor infrastructure: PRNG, reports, identified wakers, manual executor.

pub mod exec;
pub mod report;
pub mod rng;

pub use report::{Args, Report, Violation};
pub use rng::Rng;
pub use serde_json::{json, Value};

/// FNV-1a, used for case signatures (stable across runs and platforms).
pub fn fnv(bytes: &[u8]) -> u64 {
    let mut h: u64 = 0xcbf29ce484222325;
    for b in bytes {
        h ^= *b as u64;
        h = h.wrapping_mul(0x100000001b3);
    }
    h
}

pub fn fnv_str(s: &str) -> u64 {
    fnv(s.as_bytes())
}

/// Run `f`, turning a panic into `Err(message)`. The default panic hook is
/// silenced while `f` runs on this thread (other threads keep printing).
pub fn catch<R>(f: impl FnOnce() -> R) -> Result<R, String> {
    use std::panic::{catch_unwind, AssertUnwindSafe};
    QUIET.with(|q| q.set(q.get() + 1));
    let r = catch_unwind(AssertUnwindSafe(f));
    QUIET.with(|q| q.set(q.get() - 1));
    r.map_err(|e| {
        if let Some(s) = e.downcast_ref::<&str>() {
            s.to_string()
        } else if let Some(s) = e.downcast_ref::<String>() {
            s.clone()
        } else {
            "<non-string panic>".to_string()
        }
    })
}

thread_local! {
    static QUIET: std::cell::Cell<u32> = const { std::cell::Cell::new(0) };
}

/// Install a panic hook that stays silent for panics caught by [`catch`].
pub fn install_quiet_panic_hook() {
    let prev = std::panic::take_hook();
    std::panic::set_hook(Box::new(move |info| {
        let quiet = QUIET.try_with(|q| q.get() > 0).unwrap_or(false);
        // panics that are part of a scenario script carry the word "scripted"
        let scripted = info.payload().downcast_ref::<&str>().map(|s| s.contains("scripted")).unwrap_or(false)
            || info.payload().downcast_ref::<String>().map(|s| s.contains("scripted")).unwrap_or(false);
        if !quiet && !scripted {
            prev(info);
        }
    }));
}

pub mod proc {
    //! "Proving stuck": CPU time of the process's other threads over an interval.
    use std::time::Duration;

    /// Sum of utime+stime (clock ticks) over all threads of this process, and the number of threads.
    pub fn cpu_ticks_all_threads() -> Option<(u64, usize)> {
        let mut total = 0u64;
        let mut n = 0usize;
        for e in std::fs::read_dir("/proc/self/task").ok()? {
            let e = e.ok()?;
            if let Ok(stat) = std::fs::read_to_string(e.path().join("stat")) {
                // fields after the last ')' : state ppid ... utime(14) stime(15) (1-based overall)
                if let Some(rest) = stat.rsplit_once(')') {
                    let f: Vec<&str> = rest.1.split_whitespace().collect();
                    if f.len() > 13 {
                        total += f[11].parse::<u64>().unwrap_or(0) + f[12].parse::<u64>().unwrap_or(0);
                        n += 1;
                    }
                }
            }
        }
        Some((total, n))
    }

    /// True if no thread of the process consumed CPU during `interval` (sampled twice).
    /// Only meaningful when the caller itself sleeps meanwhile and no unrelated work runs in the process.
    pub fn quiescent(interval: Duration) -> Option<bool> {
        let a = cpu_ticks_all_threads()?;
        std::thread::sleep(interval);
        let b = cpu_ticks_all_threads()?;
        Some(a.0 == b.0)
    }
}
