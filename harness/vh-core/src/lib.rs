//! Shared monitor infrastructure: PRNG, reports, identified wakers, manual executor.

pub mod exec;
pub mod report;
pub mod rng;

pub use report::{Args, Report, Violation};
pub use rng::Rng;
pub use serde_json::{json, Value};

/// FNV-1a, used for case signatures (stable across runs and platforms).
pub fn fnv(bytes: &[u8]) -> u64 {
    let mut h: u64 = 0xcbf29ce484222325;
    for b in bytes {
        h ^= *b as u64;
        h = h.wrapping_mul(0x100000001b3);
    }
    h
}

pub fn fnv_str(s: &str) -> u64 {
    fnv(s.as_bytes())
}

/// Run `f`, turning a panic into `Err(message)`. The default panic hook is
/// silenced while `f` runs on this thread (other threads keep printing).
pub fn catch<R>(f: impl FnOnce() -> R) -> Result<R, String> {
    use std::panic::{catch_unwind, AssertUnwindSafe};
    QUIET.with(|q| q.set(q.get() + 1));
    let r = catch_unwind(AssertUnwindSafe(f));
    QUIET.with(|q| q.set(q.get() - 1));
    r.map_err(|e| {
        if let Some(s) = e.downcast_ref::<&str>() {
            s.to_string()
        } else if let Some(s) = e.downcast_ref::<String>() {
            s.clone()
        } else {
            "<non-string panic>".to_string()
        }
    })
}

thread_local! {
    static QUIET: std::cell::Cell<u32> = const { std::cell::Cell::new(0) };
}

/// Install a panic hook that stays silent for panics caught by [`catch`].
pub fn install_quiet_panic_hook() {
    let prev = std::panic::take_hook();
    std::panic::set_hook(Box::new(move |info| {
        let quiet = QUIET.try_with(|q| q.get() > 0).unwrap_or(false);
        if !quiet {
            prev(info);
        }
    }));
}
