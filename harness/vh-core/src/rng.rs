//! xorshift64* PRNG; every random choice of every monitor goes through this.

#[derive(Clone, Debug)]
pub struct Rng(u64);

impl Rng {
    pub fn new(seed: u64) -> Self {
        // splitmix to spread small seeds
        let mut z = seed.wrapping_add(0x9E3779B97F4A7C15);
        z = (z ^ (z >> 30)).wrapping_mul(0xBF58476D1CE4E5B9);
        z = (z ^ (z >> 27)).wrapping_mul(0x94D049BB133111EB);
        z ^= z >> 31;
        Rng(if z == 0 { 0x1234_5678_9abc_def1 } else { z })
    }

    pub fn fork(&mut self, salt: u64) -> Rng {
        Rng::new(self.next_u64() ^ salt.wrapping_mul(0x9E3779B97F4A7C15))
    }

    pub fn state(&self) -> u64 {
        self.0
    }

    pub fn next_u64(&mut self) -> u64 {
        let mut x = self.0;
        x ^= x >> 12;
        x ^= x << 25;
        x ^= x >> 27;
        self.0 = x;
        x.wrapping_mul(0x2545F4914F6CDD1D)
    }

    /// uniform in 0..n (n > 0)
    pub fn below(&mut self, n: u64) -> u64 {
        debug_assert!(n > 0);
        self.next_u64() % n
    }

    pub fn range(&mut self, lo: u64, hi_incl: u64) -> u64 {
        lo + self.below(hi_incl - lo + 1)
    }

    pub fn usize(&mut self, n: usize) -> usize {
        self.below(n as u64) as usize
    }

    pub fn chance(&mut self, num: u64, den: u64) -> bool {
        self.below(den) < num
    }

    pub fn pick<'a, T>(&mut self, xs: &'a [T]) -> &'a T {
        &xs[self.usize(xs.len())]
    }

    pub fn bytes(&mut self, n: usize) -> Vec<u8> {
        (0..n).map(|_| self.next_u64() as u8).collect()
    }

    pub fn shuffle<T>(&mut self, xs: &mut [T]) {
        for i in (1..xs.len()).rev() {
            let j = self.usize(i + 1);
            xs.swap(i, j);
        }
    }
}
