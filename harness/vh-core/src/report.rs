//! Per-process report: what the monitors observed. One JSON file per shard;
//! the python driver merges shards and writes the evidence file.

use std::collections::{BTreeMap, HashSet};

use serde_json::{json, Value};

#[derive(Clone, Debug)]
pub struct Args {
    pub prop: String,
    /// quick | thorough | miri | tsan | asan | replay
    pub tier: String,
    pub seed: u64,
    pub shard: u64,
    pub nshards: u64,
    pub out: Option<String>,
    pub replay: Option<String>,
    pub extra: BTreeMap<String, String>,
}

impl Args {
    /// `<bin> <prop> [--tier t] [--seed n] [--shard i/n] [--out p] [--replay p] [--key value]*`
    pub fn parse() -> Args {
        let mut it = std::env::args().skip(1);
        let prop = it.next().unwrap_or_else(|| {
            eprintln!("usage: <bin> <prop> [--tier t] [--seed n] [--shard i/n] [--out p] [--replay p]");
            std::process::exit(2)
        });
        let mut a = Args {
            prop,
            tier: "quick".into(),
            seed: 1,
            shard: 0,
            nshards: 1,
            out: None,
            replay: None,
            extra: BTreeMap::new(),
        };
        while let Some(k) = it.next() {
            let v = it.next().unwrap_or_default();
            match k.as_str() {
                "--tier" => a.tier = v,
                "--seed" => a.seed = v.parse().expect("seed"),
                "--shard" => {
                    let (i, n) = v.split_once('/').expect("shard i/n");
                    a.shard = i.parse().unwrap();
                    a.nshards = n.parse().unwrap();
                }
                "--out" => a.out = Some(v),
                "--replay" => a.replay = Some(v),
                _ => {
                    a.extra.insert(k.trim_start_matches("--").to_string(), v);
                }
            }
        }
        a
    }

    pub fn thorough(&self) -> bool {
        self.tier == "thorough"
    }

    /// Reduced workloads for the slow interpreters / sanitizers.
    pub fn slow(&self) -> bool {
        self.tier == "miri"
    }

    pub fn extra_u64(&self, k: &str, default: u64) -> u64 {
        self.extra.get(k).and_then(|v| v.parse().ok()).unwrap_or(default)
    }

    /// Does this shard own work item `i`?
    pub fn mine(&self, i: u64) -> bool {
        i % self.nshards == self.shard
    }
}

#[derive(Clone, Debug)]
pub struct Violation {
    /// Stable class of the failing history, e.g. `C16:close-live-sender:poll-pending`.
    pub signature: String,
    pub description: String,
    /// Everything needed to re-run the case deterministically (or the recorded witness).
    pub replay: Value,
}

const MAX_HASHES: usize = 400_000;
const MAX_VIOLATIONS_KEPT: usize = 40;
const MAX_PER_SIGNATURE: usize = 3;

#[derive(Debug)]
pub struct Report {
    pub prop: String,
    pub tier: String,
    pub seed: u64,
    pub shard: u64,
    pub evaluations: u64,
    /// Hashes of distinct non-trivial case signatures (bounded; conservative when full).
    pub distinct: HashSet<u64>,
    /// Cases that are distinct by construction (exhaustive enumeration) and non-trivial.
    pub distinct_counted: u64,
    pub counters: BTreeMap<String, u64>,
    pub samples: Vec<Value>,
    pub max_samples: usize,
    pub violations: Vec<Violation>,
    pub violations_total: u64,
    per_sig: BTreeMap<String, u64>,
    pub inconclusive: u64,
    pub inconclusive_reasons: BTreeMap<String, u64>,
    pub exhaustive: bool,
    pub rule: String,
    pub notes: Vec<String>,
}

impl Report {
    pub fn new(args: &Args) -> Report {
        Report {
            prop: args.prop.clone(),
            tier: args.tier.clone(),
            seed: args.seed,
            shard: args.shard,
            evaluations: 0,
            distinct: HashSet::new(),
            distinct_counted: 0,
            counters: BTreeMap::new(),
            samples: Vec::new(),
            max_samples: 6,
            violations: Vec::new(),
            violations_total: 0,
            per_sig: BTreeMap::new(),
            inconclusive: 0,
            inconclusive_reasons: BTreeMap::new(),
            exhaustive: false,
            rule: String::new(),
            notes: Vec::new(),
        }
    }

    pub fn count(&mut self, k: &str) {
        self.add(k, 1);
    }

    pub fn add(&mut self, k: &str, n: u64) {
        if let Some(v) = self.counters.get_mut(k) {
            *v += n;
        } else {
            self.counters.insert(k.to_string(), n);
        }
    }

    pub fn max(&mut self, k: &str, n: u64) {
        let e = self.counters.entry(k.to_string()).or_insert(0);
        if n > *e {
            *e = n;
        }
    }

    pub fn get(&self, k: &str) -> u64 {
        self.counters.get(k).copied().unwrap_or(0)
    }

    /// Record a non-trivial case by signature hash.
    pub fn nontrivial(&mut self, sig: u64) {
        if self.distinct.len() < MAX_HASHES {
            self.distinct.insert(sig);
        }
    }

    pub fn sample(&mut self, v: impl FnOnce() -> Value) {
        if self.samples.len() < self.max_samples {
            self.samples.push(v());
        }
    }

    /// Keep a sample with probability ~ so that samples are spread over the run.
    pub fn sample_spread(&mut self, v: impl FnOnce() -> Value) {
        let n = self.evaluations;
        if self.samples.len() < self.max_samples && (n < 2 || n.is_power_of_two() || n % 99_991 == 0) {
            self.samples.push(v());
        }
    }

    pub fn violation(&mut self, signature: impl Into<String>, description: impl Into<String>, replay: Value) {
        let signature = signature.into();
        self.violations_total += 1;
        let n = self.per_sig.entry(signature.clone()).or_insert(0);
        *n += 1;
        if *n as usize <= MAX_PER_SIGNATURE && self.violations.len() < MAX_VIOLATIONS_KEPT {
            self.violations.push(Violation {
                signature,
                description: description.into(),
                replay,
            });
        }
    }

    pub fn inconclusive(&mut self, reason: &str) {
        self.inconclusive += 1;
        *self.inconclusive_reasons.entry(reason.to_string()).or_insert(0) += 1;
    }

    pub fn note(&mut self, s: impl Into<String>) {
        self.notes.push(s.into());
    }

    pub fn to_json(&self) -> Value {
        let mut hashes: Vec<String> = self.distinct.iter().map(|h| format!("{h:016x}")).collect();
        hashes.sort();
        json!({
            "prop": self.prop,
            "tier": self.tier,
            "seed": self.seed,
            "shard": self.shard,
            "evaluations": self.evaluations,
            "distinct_hashes": hashes,
            "distinct_counted": self.distinct_counted,
            "counters": self.counters,
            "samples": self.samples,
            "violations": self.violations.iter().map(|v| json!({
                "signature": v.signature,
                "description": v.description,
                "replay": v.replay,
            })).collect::<Vec<_>>(),
            "violations_total": self.violations_total,
            "violations_by_signature": self.per_sig,
            "inconclusive": self.inconclusive,
            "inconclusive_reasons": self.inconclusive_reasons,
            "exhaustive": self.exhaustive,
            "rule": self.rule,
            "notes": self.notes,
        })
    }

    /// Write the report to `--out` (or stdout) and return the process exit code
    /// (0 held, 1 violated). The driver decides inconclusive from the counters.
    pub fn finish(&self, args: &Args) -> i32 {
        let txt = serde_json::to_string(&self.to_json()).unwrap();
        match &args.out {
            Some(p) => std::fs::write(p, txt).expect("write report"),
            None => println!("{txt}"),
        }
        if self.violations_total > 0 {
            1
        } else {
            0
        }
    }
}
