//! Identified, counting wakers and a manual poll driver.
//!
//! Every waker handed to code under test is individually identifiable
//! (`id`) and counts how often it was woken, so "was woken", "woken through
//! which registration" and "polled with which waker" are all observable.

use std::{
    cell::RefCell,
    future::Future,
    pin::Pin,
    sync::{
        atomic::{AtomicU64, Ordering},
        Arc,
    },
    task::{Context, Poll, Wake, Waker},
};

#[derive(Debug)]
pub struct WakeRec {
    pub id: u64,
    wakes: AtomicU64,
}

impl WakeRec {
    pub fn wakes(&self) -> u64 {
        self.wakes.load(Ordering::SeqCst)
    }
}

impl Wake for WakeRec {
    fn wake(self: Arc<Self>) {
        self.wakes.fetch_add(1, Ordering::SeqCst);
    }
    fn wake_by_ref(self: &Arc<Self>) {
        self.wakes.fetch_add(1, Ordering::SeqCst);
    }
}

thread_local! {
    static REGISTRY: RefCell<Vec<Arc<WakeRec>>> = const { RefCell::new(Vec::new()) };
}

/// A fresh identified waker, remembered in the thread's registry so that
/// [`waker_id`] can recognise clones of it.
pub fn new_waker(id: u64) -> (Waker, Arc<WakeRec>) {
    let rec = Arc::new(WakeRec {
        id,
        wakes: AtomicU64::new(0),
    });
    let waker = Waker::from(rec.clone());
    REGISTRY.with(|r| r.borrow_mut().push(rec.clone()));
    (waker, rec)
}

/// Is `w` (a clone of) the waker that belongs to `rec`? Decided by waking it
/// by reference and undoing the count: `Waker::will_wake` may answer false for
/// clones (vtable addresses are not guaranteed unique; it does under Miri).
pub fn is_waker_of(w: &Waker, rec: &Arc<WakeRec>) -> bool {
    REGISTRY.with(|r| {
        let r = r.borrow();
        let before: Vec<u64> = r.iter().map(|x| x.wakes()).collect();
        w.wake_by_ref();
        let mut hit = false;
        for (x, b) in r.iter().zip(before) {
            if x.wakes() == b + 1 {
                x.wakes.fetch_sub(1, Ordering::SeqCst);
                hit = hit || Arc::ptr_eq(x, rec);
            }
        }
        hit
    })
}

/// Identity of a waker created by [`new_waker`] on this thread (clones included).
pub fn waker_id(w: &Waker) -> Option<u64> {
    REGISTRY.with(|r| {
        let r = r.borrow();
        let before: Vec<u64> = r.iter().map(|x| x.wakes()).collect();
        w.wake_by_ref();
        for (rec, b) in r.iter().zip(before) {
            if rec.wakes() == b + 1 {
                rec.wakes.fetch_sub(1, Ordering::SeqCst);
                return Some(rec.id);
            }
        }
        None
    })
}

/// Forget all registered wakers (call between cases).
pub fn reset_wakers() {
    REGISTRY.with(|r| r.borrow_mut().clear());
}

/// Poll `f` once with waker `w`.
pub fn poll_once<F: Future + ?Sized>(f: Pin<&mut F>, w: &Waker) -> Poll<F::Output> {
    let mut cx = Context::from_waker(w);
    f.poll(&mut cx)
}

/// Outcome of [`drive`].
#[derive(Debug)]
pub enum Driven<T> {
    /// Completed after this many polls.
    Done(T, u64),
    /// Returned Pending and the waker of that poll was never woken (and
    /// `on_stall` made no progress): the future can never be polled again by a
    /// well-behaved executor.
    Stalled(u64),
    /// Poll budget exhausted.
    Budget,
}

/// Drive a future the way a strict executor would: a fresh identified waker
/// per poll, and the future is re-polled only after *that* waker was woken.
/// `on_pending(poll_no)` runs after every Pending (it may release scripted
/// leaves, which is what legitimately wakes the waker); it returns false when
/// it has nothing left to do.
pub fn drive<F: Future>(
    mut f: Pin<&mut F>,
    max_polls: u64,
    mut on_pending: impl FnMut(u64) -> bool,
) -> Driven<F::Output> {
    let mut n = 0u64;
    loop {
        if n >= max_polls {
            return Driven::Budget;
        }
        let (w, rec) = new_waker(n);
        n += 1;
        match poll_once(f.as_mut(), &w) {
            Poll::Ready(v) => return Driven::Done(v, n),
            Poll::Pending => {
                let mut steps = 0;
                while rec.wakes() == 0 {
                    if !on_pending(n - 1) {
                        break;
                    }
                    steps += 1;
                    if steps > 64 {
                        break;
                    }
                }
                if rec.wakes() == 0 {
                    return Driven::Stalled(n);
                }
            }
        }
    }
}
