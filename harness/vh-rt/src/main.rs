//! actix-rt monitors: C09 (System stop) and C10 (arbiter commands).
//! Runs natively, under ThreadSanitizer and under Miri (many seeds).

mod c09;
mod c10;

use std::{
    sync::mpsc,
    thread,
    time::{Duration, Instant},
};

use vh_core::{Args, Report};

/// Outcome of waiting for something that must happen.
pub enum Waited<T> {
    Done(T),
    /// watchdog fired and the process was quiescent (no thread consumed CPU): provably stuck
    Stuck,
    /// watchdog fired but the process is still busy: machine overloaded, not a verdict
    Unknown,
}

pub fn watchdog_secs() -> u64 {
    if cfg!(miri) {
        3600
    } else {
        10
    }
}

/// Join a thread-like operation with a watchdog. Under Miri the operation runs inline so that Miri's
/// own deadlock detection stays effective.
pub fn with_watchdog<T: Send + 'static>(f: impl FnOnce() -> T + Send + 'static) -> Waited<T> {
    if cfg!(miri) {
        return Waited::Done(f());
    }
    let (tx, rx) = mpsc::channel();
    thread::spawn(move || {
        let _ = tx.send(f());
    });
    match rx.recv_timeout(Duration::from_secs(watchdog_secs())) {
        Ok(v) => Waited::Done(v),
        Err(_) => match vh_core::proc::quiescent(Duration::from_millis(1500)) {
            Some(true) => match rx.try_recv() {
                Ok(v) => Waited::Done(v),
                Err(_) => Waited::Stuck,
            },
            _ => Waited::Unknown,
        },
    }
}

/// Poll `cond` until true; bounded.
pub fn wait_until(mut cond: impl FnMut() -> bool) -> Waited<()> {
    let t0 = Instant::now();
    let mut spins = 0u64;
    loop {
        if cond() {
            return Waited::Done(());
        }
        spins += 1;
        if cfg!(miri) {
            if spins > 200_000 {
                return Waited::Unknown;
            }
            thread::yield_now();
        } else {
            if t0.elapsed() > Duration::from_secs(watchdog_secs()) {
                return match vh_core::proc::quiescent(Duration::from_millis(1500)) {
                    Some(true) if !cond() => Waited::Stuck,
                    _ if cond() => Waited::Done(()),
                    _ => Waited::Unknown,
                };
            }
            if spins < 50 {
                thread::yield_now();
            } else {
                thread::sleep(Duration::from_micros(200));
            }
        }
    }
}

pub fn jitter(rng: &mut vh_core::Rng) {
    match rng.usize(6) {
        0 => {}
        1 | 2 => thread::yield_now(),
        3 => {
            for _ in 0..rng.usize(200) {
                std::hint::spin_loop();
            }
        }
        _ => {
            if !cfg!(miri) {
                thread::sleep(Duration::from_micros(rng.below(300)));
            } else {
                thread::yield_now();
            }
        }
    }
}

pub fn thread_hash() -> u64 {
    use std::hash::{Hash, Hasher};
    let mut h = std::collections::hash_map::DefaultHasher::new();
    thread::current().id().hash(&mut h);
    h.finish() | 1
}

fn main() {
    vh_core::install_quiet_panic_hook();
    let args = Args::parse();
    if args.prop == "__warm__" {
        return;
    }
    let mut rep = Report::new(&args);
    match args.prop.as_str() {
        "C09" => c09::run(&args, &mut rep),
        "C10" => c10::run(&args, &mut rep),
        p => {
            eprintln!("vh-rt: unknown property {p}");
            std::process::exit(2);
        }
    }
    std::process::exit(rep.finish(&args));
}
