//! C09 — System stop delivers the exit code and stops every arbiter.

use std::{
    sync::{
        atomic::{AtomicBool, AtomicU64, Ordering},
        Arc,
    },
    thread,
    time::Duration,
};

use actix_rt::{Arbiter, System};
use vh_core::{fnv_str, json, Args, Report, Rng, Value};

use crate::{jitter, wait_until, with_watchdog, Waited};

#[derive(Clone, Copy, Debug, PartialEq, Eq)]
enum ArbState {
    /// stop() + join() before the system stop is issued
    StoppedEarlyJoined,
    /// stop() early, joined at the end
    StoppedEarly,
    /// Arbiter value dropped (thread keeps running); observed through a drop guard of a parked task
    Dropped,
    Idle,
    /// finite work: yields a few hundred times
    BusyFinite,
    /// a task sleeping for an hour
    Sleeping,
    /// the arbiter's thread is held by a blocking task while 40..120 commands queue up behind it; it is released
    /// around the time the stop is issued, so its loop has a long backlog in front of the system's stop command
    Backlog,
}

#[derive(Clone, Copy, Debug, PartialEq, Eq)]
enum From {
    SysBeforeRun,
    SysInBlockOn,
    Arbiter(usize),
    Foreign,
}

#[derive(Clone, Debug)]
struct Scn {
    arbiters: Vec<ArbState>,
    /// one or two stops; (issuer, code)
    stops: Vec<(From, i32)>,
    /// with two stops: true = the harness orders them (first happens-before second)
    ordered: bool,
    use_run: bool,
    seed: u64,
    small: bool,
}

impl Scn {
    fn to_json(&self) -> Value {
        json!({"prop": "C09", "arbiters": self.arbiters.iter().map(|a| format!("{a:?}")).collect::<Vec<_>>(),
               "stops": self.stops.iter().map(|(f, c)| format!("{f:?}:{c}")).collect::<Vec<_>>(),
               "ordered": self.ordered, "use_run": self.use_run, "case_seed": self.seed, "small": self.small})
    }
    fn signature(&self) -> String {
        format!("{:?}|{:?}|{}|{}", self.arbiters, self.stops, self.ordered, self.use_run)
    }
}

fn gen(rng: &mut Rng, small: bool) -> Scn {
    gen_from_seed(rng.next_u64(), small)
}

/// Everything about a scenario is derived from its seed (replay regenerates it).
fn gen_from_seed(seed: u64, small: bool) -> Scn {
    let mut r = Rng::new(seed);
    let n = r.usize(if small { 3 } else { 4 });
    let states = [ArbState::StoppedEarlyJoined, ArbState::StoppedEarly, ArbState::Dropped, ArbState::Idle, ArbState::BusyFinite, ArbState::Sleeping, ArbState::Backlog];
    let arbiters: Vec<ArbState> = (0..n).map(|_| *r.pick(&states)).collect();
    let alive: Vec<usize> = arbiters
        .iter()
        .enumerate()
        .filter(|(_, s)| matches!(s, ArbState::Idle | ArbState::BusyFinite | ArbState::Sleeping))
        .map(|(i, _)| i)
        .collect();
    let codes = [0i32, 7, -1, 42];
    let pick_from = |r: &mut Rng| match r.usize(4) {
        0 => From::SysBeforeRun,
        1 => From::SysInBlockOn,
        2 if !alive.is_empty() => From::Arbiter(*r.pick(&alive)),
        _ => From::Foreign,
    };
    let two = r.chance(1, 2);
    let c1 = *r.pick(&codes);
    let mut stops = vec![(pick_from(&mut r), c1)];
    if two {
        let mut c2 = *r.pick(&codes);
        if c2 == c1 {
            c2 = c1 + 100;
        }
        stops.push((pick_from(&mut r), c2));
    }
    let mut ordered = r.chance(1, 2);
    // two stops from the system thread itself are ordered by program order
    if stops.iter().all(|(f, _)| matches!(f, From::SysBeforeRun | From::SysInBlockOn)) {
        ordered = true;
    }
    Scn {
        arbiters,
        stops,
        ordered,
        use_run: r.chance(1, 3),
        seed,
        small,
    }
}

struct Fail {
    sig: String,
    desc: String,
}

enum Outcome {
    Held,
    Violated(Fail),
    Inconclusive(&'static str),
}

#[derive(Default)]
struct Rendezvous(std::sync::atomic::AtomicUsize);
impl Rendezvous {
    fn wait(&self, parties: usize) {
        self.0.fetch_add(1, Ordering::SeqCst);
        let mut spins = 0u32;
        while self.0.load(Ordering::SeqCst) < parties && spins < 2_000 {
            spins += 1;
            thread::yield_now();
        }
    }
}

struct DropFlag(Arc<AtomicBool>);
impl Drop for DropFlag {
    fn drop(&mut self) {
        self.0.store(true, Ordering::SeqCst);
    }
}

#[derive(Default)]
struct Seen {
    racing_first_won: u64,
    racing_second_won: u64,
    ordered_checked: u64,
    joins_checked: u64,
    dropped_arbiters_observed: u64,
    early_stopped: u64,
    nonzero_run_err: u64,
    zero_run_ok: u64,
    arbiters_total: u64,
    stops_from_arbiter: u64,
    stops_from_foreign: u64,
    stops_from_system_thread: u64,
    late_arbiters: u64,
    backlog_arbiters: u64,
}

/// Runs on a fresh thread: owns the System.
fn scenario(scn: &Scn, seen: &mut Seen) -> Outcome {
    let mut rng = Rng::new(scn.seed ^ 0x5eed);
    let runner = System::new();
    let sys = System::current();

    // ---- arbiters
    let mut kept: Vec<(usize, Arbiter)> = Vec::new();
    let mut handles = Vec::new();
    let mut drop_flags: Vec<(usize, Arc<AtomicBool>)> = Vec::new();
    let mut backlog_release: Vec<Arc<AtomicBool>> = Vec::new();
    for (i, st) in scn.arbiters.iter().enumerate() {
        let arb = Arbiter::new();
        handles.push(arb.handle());
        seen.arbiters_total += 1;
        match st {
            ArbState::StoppedEarlyJoined => {
                arb.stop();
                seen.early_stopped += 1;
                match with_watchdog(move || arb.join().is_ok()) {
                    Waited::Done(_) => {}
                    Waited::Stuck => {
                        return Outcome::Violated(Fail {
                            sig: "C09:early-stopped-arbiter-join-hangs".into(),
                            desc: format!("arbiter {i}: join() after stop() did not return and the process is quiescent"),
                        })
                    }
                    Waited::Unknown => return Outcome::Inconclusive("early join watchdog"),
                }
            }
            ArbState::StoppedEarly => {
                arb.stop();
                seen.early_stopped += 1;
                kept.push((i, arb));
            }
            ArbState::Dropped => {
                let flag = Arc::new(AtomicBool::new(false));
                let g = DropFlag(flag.clone());
                arb.spawn(async move {
                    let _g = g;
                    std::future::pending::<()>().await;
                });
                drop_flags.push((i, flag));
                drop(arb);
            }
            ArbState::Idle => kept.push((i, arb)),
            ArbState::BusyFinite => {
                let n = 50 + rng.usize(300);
                arb.spawn(async move {
                    for _ in 0..n {
                        tokio::task::yield_now().await;
                    }
                });
                kept.push((i, arb));
            }
            ArbState::Sleeping => {
                arb.spawn(async {
                    tokio::time::sleep(Duration::from_secs(3600)).await;
                });
                kept.push((i, arb));
            }
            ArbState::Backlog => {
                let release = Arc::new(AtomicBool::new(false));
                let entered = Arc::new(AtomicBool::new(false));
                let (e2, r2) = (entered.clone(), release.clone());
                arb.spawn_fn(move || {
                    e2.store(true, Ordering::SeqCst);
                    // bounded, so that a scenario that ends early cannot leave a spinning thread behind
                    let t0 = std::time::Instant::now();
                    while !r2.load(Ordering::SeqCst) && t0.elapsed() < Duration::from_secs(10) {
                        // (the thread is held either way; sleeping keeps a loaded machine from being flooded with spinners)
                        if cfg!(miri) {
                            thread::yield_now();
                        } else {
                            thread::sleep(Duration::from_micros(100));
                        }
                    }
                });
                match wait_until(|| entered.load(Ordering::SeqCst)) {
                    Waited::Done(()) => {}
                    _ => {
                        release.store(true, Ordering::SeqCst);
                        return Outcome::Inconclusive("backlog blocker did not start");
                    }
                }
                let n = 40 + rng.usize(80);
                let ran = Arc::new(AtomicU64::new(0));
                for _ in 0..n {
                    let ran = ran.clone();
                    arb.spawn_fn(move || {
                        ran.fetch_add(1, Ordering::Relaxed);
                    });
                }
                seen.backlog_arbiters += 1;
                backlog_release.push(release);
                kept.push((i, arb));
            }
        }
        jitter(&mut rng);
    }
    // arbiters with a backlog are let go around the time the stops are issued
    if !backlog_release.is_empty() {
        let delay_us = rng.below(3000);
        let flags = backlog_release.clone();
        thread::spawn(move || {
            thread::sleep(Duration::from_micros(delay_us));
            for f in flags {
                f.store(true, Ordering::SeqCst);
            }
        });
    }

    // ---- stops
    let ticket = Arc::new(AtomicU64::new(0));
    let tickets: Vec<Arc<AtomicU64>> = (0..scn.stops.len()).map(|_| Arc::new(AtomicU64::new(u64::MAX))).collect();
    let racing = scn.stops.len() == 2 && !scn.ordered;
    // rendezvous for racing stops: best effort and bounded, a party that never arrives must not block the other
    let barrier = Arc::new(Rendezvous::default());
    let mut foreign_threads = Vec::new();
    let mut deferred_block_on: Vec<(i32, Arc<AtomicU64>)> = Vec::new();
    // both stops issued on the system thread before run(): everything is queued when the controller first runs
    let late_arbiter = scn.stops.len() == 2 && scn.stops.iter().all(|(f, _)| *f == From::SysBeforeRun) && scn.seed % 2 == 0;
    let mut late: Option<Arbiter> = None;
    let mut second_skipped = false;

    // ordered = every stop is *issued* (the call returned) before the next one starts
    for (k, (from, code)) in scn.stops.iter().enumerate() {
        let code = *code;
        let tk = tickets[k].clone();
        let ticket = ticket.clone();
        let issue = {
            let sys = sys.clone();
            move || {
                tk.store(ticket.fetch_add(1, Ordering::Relaxed), Ordering::Relaxed);
                sys.stop_with_code(code);
            }
        };
        match from {
            From::SysBeforeRun => {
                seen.stops_from_system_thread += 1;
                // an arbiter created after the first stop was issued but before this (second) one: the second stop is
                // issued after its creation, so it must be stopped as well
                if k == 1 && late_arbiter {
                    let arb = Arbiter::new();
                    seen.arbiters_total += 1;
                    seen.late_arbiters += 1;
                    late = Some(arb);
                }
                issue();
            }
            From::SysInBlockOn => {
                seen.stops_from_system_thread += 1;
                if scn.ordered || scn.stops.len() == 1 {
                    runner.block_on(async { issue() });
                } else {
                    deferred_block_on.push((code, tickets[k].clone()));
                }
            }
            From::Arbiter(i) => {
                seen.stops_from_arbiter += 1;
                let b = barrier.clone();
                let done = Arc::new(AtomicBool::new(false));
                let d2 = done.clone();
                let racing_here = racing;
                let ok = handles[*i].spawn_fn(move || {
                    if racing_here {
                        b.wait(2);
                    }
                    // on the arbiter thread System::current() is the arbiter's system
                    let cur = System::current();
                    let _ = cur.id();
                    issue();
                    d2.store(true, Ordering::SeqCst);
                });
                if !ok {
                    if k == 0 {
                        return Outcome::Inconclusive("arbiter gone before the first stop could be sent");
                    }
                    // the first stop was already processed (block_on drives the controller): only one stop exists
                    second_skipped = true;
                    continue;
                }
                if scn.ordered && scn.stops.len() == 2 {
                    // make "issued" precede the next stop
                    match wait_until(|| done.load(Ordering::SeqCst)) {
                        Waited::Done(()) => {}
                        _ => return Outcome::Inconclusive("arbiter-issued stop did not run"),
                    }
                }
            }
            From::Foreign => {
                seen.stops_from_foreign += 1;
                let b = barrier.clone();
                let racing_here = racing;
                let mut r2 = rng.fork(k as u64);
                let h = thread::spawn(move || {
                    if racing_here {
                        b.wait(2);
                    }
                    jitter(&mut r2);
                    issue();
                });
                if scn.ordered && scn.stops.len() == 2 {
                    let _ = h.join();
                } else {
                    foreign_threads.push(h);
                }
            }
        }
    }
    for (code, tk) in deferred_block_on {
        let sys2 = sys.clone();
        let ticket = ticket.clone();
        runner.block_on(async move {
            tk.store(ticket.fetch_add(1, Ordering::Relaxed), Ordering::Relaxed);
            sys2.stop_with_code(code);
        });
    }

    // ---- run
    let (code, run_ok): (i32, Option<bool>) = if scn.use_run {
        match runner.run() {
            Ok(()) => (0, Some(true)),
            Err(e) => {
                let msg = e.to_string();
                let c = msg.rsplit(' ').next().and_then(|x| x.parse::<i32>().ok());
                match c {
                    Some(c) => (c, Some(false)),
                    None => {
                        return Outcome::Violated(Fail {
                            sig: "C09:run-error-without-code".into(),
                            desc: format!("run() failed with {msg:?}"),
                        })
                    }
                }
            }
        }
    } else {
        match runner.run_with_code() {
            Ok(c) => (c, None),
            Err(e) => {
                return Outcome::Violated(Fail {
                    sig: "C09:run-with-code-error".into(),
                    desc: format!("run_with_code() returned Err({e}) although a stop was issued"),
                })
            }
        }
    };
    for h in foreign_threads {
        let _ = h.join();
    }

    // ---- exit code oracle
    let c1 = scn.stops[0].1;
    if scn.stops.len() == 1 || scn.ordered || second_skipped {
        seen.ordered_checked += 1;
        if code != c1 {
            return Outcome::Violated(Fail {
                sig: if scn.stops.len() == 1 { "C09:wrong-exit-code" } else { "C09:later-stop-overrode-first" }.into(),
                desc: format!("run returned code {code}; the first stop (happens-before any other) carried {c1}; stops {:?}", scn.stops),
            });
        }
    } else {
        let c2 = scn.stops[1].1;
        if code == c1 {
            seen.racing_first_won += 1;
        } else if code == c2 {
            seen.racing_second_won += 1;
        } else {
            return Outcome::Violated(Fail {
                sig: "C09:exit-code-of-no-stop".into(),
                desc: format!("run returned {code}, racing stops carried {c1} and {c2}"),
            });
        }
    }
    if let Some(ok) = run_ok {
        if ok != (code == 0) {
            return Outcome::Violated(Fail {
                sig: "C09:run-result-mismatch".into(),
                desc: format!("run() returned ok={ok} for exit code {code}"),
            });
        }
        if ok {
            seen.zero_run_ok += 1
        } else {
            seen.nonzero_run_err += 1
        }
    }

    // ---- every arbiter created before the stop has ended its loop
    if let Some(arb) = late {
        seen.joins_checked += 1;
        match with_watchdog(move || arb.join().is_ok()) {
            Waited::Done(_) => {}
            Waited::Stuck => {
                return Outcome::Violated(Fail {
                    sig: "C09:arbiter-not-stopped:created-between-two-stops".into(),
                    desc: "an arbiter created after the first stop_with_code call but before the second was not stopped by the second call: join() does not return; process quiescent".into(),
                })
            }
            Waited::Unknown => return Outcome::Inconclusive("late-arbiter join watchdog"),
        }
    }
    for (i, arb) in kept {
        seen.joins_checked += 1;
        match with_watchdog(move || arb.join().is_ok()) {
            Waited::Done(_) => {}
            Waited::Stuck => {
                return Outcome::Violated(Fail {
                    sig: format!("C09:arbiter-not-stopped:{:?}", scn.arbiters[i]),
                    desc: format!("arbiter {i} ({:?}) was created before the stop but join() does not return; process quiescent", scn.arbiters[i]),
                })
            }
            Waited::Unknown => return Outcome::Inconclusive("join watchdog, process still busy"),
        }
    }
    for (i, flag) in drop_flags {
        seen.dropped_arbiters_observed += 1;
        match wait_until(|| flag.load(Ordering::SeqCst)) {
            Waited::Done(()) => {}
            Waited::Stuck => {
                return Outcome::Violated(Fail {
                    sig: "C09:arbiter-not-stopped:Dropped".into(),
                    desc: format!("arbiter {i} (handle dropped) still holds its parked task after the system stopped; process quiescent"),
                })
            }
            Waited::Unknown => return Outcome::Inconclusive("dropped-arbiter watchdog"),
        }
    }
    Outcome::Held
}

fn run_scn(scn: &Scn, seen: &mut Seen) -> Outcome {
    // each scenario on a fresh thread: System installs thread-locals
    let s2 = scn.clone();
    let (tx, rx) = std::sync::mpsc::channel();
    let h = thread::spawn(move || {
        let mut seen = Seen::default();
        let r = std::panic::catch_unwind(std::panic::AssertUnwindSafe(|| scenario(&s2, &mut seen)));
        let _ = tx.send((r, seen));
    });
    let got = if cfg!(miri) { rx.recv().ok() } else { rx.recv_timeout(Duration::from_secs(120)).ok() };
    match got {
        Some((r, s)) => {
            let _ = h.join();
            merge(seen, &s);
            match r {
                Ok(o) => o,
                Err(e) => {
                    let msg = e.downcast_ref::<&str>().map(|s| s.to_string()).or_else(|| e.downcast_ref::<String>().cloned()).unwrap_or_default();
                    Outcome::Violated(Fail {
                        sig: "C09:panic".into(),
                        desc: format!("scenario panicked: {msg}"),
                    })
                }
            }
        }
        None => match vh_core::proc::quiescent(Duration::from_millis(1500)) {
            Some(true) => Outcome::Violated(Fail {
                sig: "C09:run-never-returns".into(),
                desc: "the system thread never finished (run did not return) and the process is quiescent".into(),
            }),
            _ => Outcome::Inconclusive("scenario watchdog"),
        },
    }
}

fn merge(a: &mut Seen, b: &Seen) {
    a.racing_first_won += b.racing_first_won;
    a.racing_second_won += b.racing_second_won;
    a.ordered_checked += b.ordered_checked;
    a.joins_checked += b.joins_checked;
    a.dropped_arbiters_observed += b.dropped_arbiters_observed;
    a.early_stopped += b.early_stopped;
    a.nonzero_run_err += b.nonzero_run_err;
    a.zero_run_ok += b.zero_run_ok;
    a.arbiters_total += b.arbiters_total;
    a.stops_from_arbiter += b.stops_from_arbiter;
    a.stops_from_foreign += b.stops_from_foreign;
    a.stops_from_system_thread += b.stops_from_system_thread;
    a.late_arbiters += b.late_arbiters;
    a.backlog_arbiters += b.backlog_arbiters;
}

pub fn run(args: &Args, rep: &mut Report) {
    let mut seen = Seen::default();
    if let Some(p) = &args.replay {
        let v: Value = serde_json::from_str(&std::fs::read_to_string(p).expect("replay file")).unwrap();
        let seed = v["case_seed"].as_u64().expect("case_seed");
        let scn = gen_from_seed(seed, v["small"].as_bool().unwrap_or(false));
        let mut reproduced = 0;
        for _ in 0..20 {
            rep.evaluations += 1;
            if let Outcome::Violated(f) = run_scn(&scn, &mut seen) {
                reproduced += 1;
                rep.violation(f.sig, f.desc, scn.to_json());
            }
        }
        rep.note(format!("replay: {reproduced}/20 runs reproduced a violation"));
        rep.rule = "replay: the recorded scenario re-run 20 times".into();
        return;
    }

    let n = match args.tier.as_str() {
        "thorough" => 300_000u64,
        "miri" => 6,
        "tsan" => 4_000,
        _ => 20_000,
    };
    let n = args.extra_u64("n", n);
    let mut rng = Rng::new(args.seed ^ 0xC09).fork(args.shard);
    for i in 0..n {
        if !args.mine(i) {
            continue;
        }
        let scn = gen(&mut rng, args.slow());
        rep.evaluations += 1;
        if rep.violations_total >= 5 {
            rep.note("stopped early after 5 violations");
            break;
        }
        let mut outcome = run_scn(&scn, &mut seen);
        let mut tries = 0;
        while let Outcome::Inconclusive(_) = outcome {
            tries += 1;
            if tries > 2 {
                break;
            }
            outcome = run_scn(&scn, &mut seen);
        }
        match outcome {
            Outcome::Held => {
                if !scn.arbiters.is_empty() {
                    rep.nontrivial(fnv_str(&scn.signature()));
                }
            }
            Outcome::Violated(f) => rep.violation(f.sig, format!("{} [{}]", f.desc, scn.signature()), scn.to_json()),
            Outcome::Inconclusive(why) => rep.inconclusive(why),
        }
        if i < 3 * args.nshards {
            rep.sample(|| scn.to_json());
        }
    }
    rep.rule = "seeded random scenarios: 0..3 arbiters each in {stopped early + joined, stopped early, handle dropped, idle, busy with a finite task, busy with a sleeping task}; \
                one or two stop_with_code calls issued from {system thread before run, system thread inside block_on, an arbiter thread, a foreign thread} with codes {0,7,-1,42}; two stops either ordered by the harness (first must win) or racing through a barrier (either may win); \
                run_with_code or run; afterwards every kept arbiter must join and every dropped arbiter must release its parked task. Distinct = distinct scenario shape (states, issuers, codes, ordering); non-trivial = at least one arbiter."
        .into();
    rep.add("obs_arbiters_created", seen.arbiters_total);
    rep.add("obs_joins_checked", seen.joins_checked);
    rep.add("obs_dropped_arbiters_observed", seen.dropped_arbiters_observed);
    rep.add("obs_early_stopped_arbiters", seen.early_stopped);
    rep.add("obs_ordered_or_single_stop_codes_checked", seen.ordered_checked);
    rep.add("obs_racing_first_won", seen.racing_first_won);
    rep.add("obs_racing_second_won", seen.racing_second_won);
    rep.add("obs_run_err_for_nonzero", seen.nonzero_run_err);
    rep.add("obs_run_ok_for_zero", seen.zero_run_ok);
    rep.add("obs_stops_from_arbiter_thread", seen.stops_from_arbiter);
    rep.add("obs_stops_from_foreign_thread", seen.stops_from_foreign);
    rep.add("obs_stops_from_system_thread", seen.stops_from_system_thread);
    rep.add("obs_arbiters_created_between_two_stops", seen.late_arbiters);
    rep.add("obs_arbiters_with_command_backlog", seen.backlog_arbiters);
}

