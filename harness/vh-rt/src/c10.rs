//! C10 — arbiter commands run FIFO, at most once, on the arbiter's own thread.
//!
//! All task-side observations are written to per-task atomics with Relaxed
//! ordering (no harness mutex on the arbiter thread, so a sanitizer still sees
//! the program's own synchronisation) and read after the threads were joined.

use std::{
    sync::{
        atomic::{AtomicBool, AtomicU64, Ordering::Relaxed},
        Arc, Barrier,
    },
    thread,
    time::Duration,
};

use actix_rt::{Arbiter, ArbiterHandle, System};
use vh_core::{fnv_str, json, Args, Report, Rng, Value};

use crate::{jitter, thread_hash, wait_until, with_watchdog, Waited};

#[derive(Clone, Copy, Debug, PartialEq, Eq)]
enum Kind {
    Complete,
    /// records, then pends forever holding a drop guard
    Pend,
    Panic,
    /// records, then spawns a probe through `Arbiter::current()`
    Nested,
    /// yields a few times, then records a second stamp
    Yield,
    /// records, then stops its own arbiter through `Arbiter::current()` and sends one more function through the same
    /// handle: sent after stop() returned, it must never start
    StopSelf,
}

#[derive(Clone, Copy, Debug, PartialEq, Eq)]
enum Op {
    Spawn(Kind),
    SpawnFn(Kind),
    Stop,
}

#[derive(Clone, Debug)]
struct Scn {
    seed: u64,
    small: bool,
    /// target: a dedicated arbiter, or the system arbiter (`System::current().arbiter()`)
    system_arbiter: bool,
    /// the arbiter is kept busy (a task spins until released) while each phase's commands are sent, so that they are
    /// all queued when the loop next looks at its channel
    busy: bool,
    /// a throw-away System was created, run and dropped on the same thread first
    prior_system: bool,
    /// ops[phase][sender]; sender 0 is the owner thread (holds the `Arbiter`), others use cloned handles
    ops: Vec<Vec<Vec<Op>>>,
}

impl Scn {
    fn to_json(&self) -> Value {
        json!({"prop": "C10", "case_seed": self.seed, "small": self.small, "system_arbiter": self.system_arbiter,
               "busy": self.busy, "prior_system": self.prior_system,
               "ops": format!("{:?}", self.ops)})
    }
    fn signature(&self) -> String {
        format!("{}{}{}|{}", self.system_arbiter as u8, self.busy as u8, self.prior_system as u8, compress(&self.ops))
    }
}

fn compress(ops: &[Vec<Vec<Op>>]) -> String {
    // run-length form: bursts of 200 identical commands stay readable
    let mut out = String::new();
    for per in ops {
        out.push('[');
        for v in per {
            out.push('[');
            let mut i = 0;
            while i < v.len() {
                let mut j = i;
                while j < v.len() && v[j] == v[i] {
                    j += 1;
                }
                out.push_str(&format!("{:?}x{} ", v[i], j - i));
                i = j;
            }
            out.push(']');
        }
        out.push(']');
    }
    out
}

fn gen_from_seed(seed: u64, small: bool) -> Scn {
    let mut r = Rng::new(seed);
    let system_arbiter = r.chance(1, 5);
    let busy = r.chance(1, 3);
    let prior_system = r.chance(1, 4);
    // burst: a busy arbiter, a stop, then far more commands than one poll of the loop receives (Tokio's cooperative
    // budget is 128 receives) from the same sender and from a second one
    if !small && r.chance(1, 40) {
        let n = 140 + r.usize(120);
        let mut own: Vec<Op> = (0..r.usize(3)).map(|_| Op::SpawnFn(Kind::Complete)).collect();
        own.push(Op::Stop);
        own.extend((0..n).map(|i| if i % 2 == 0 { Op::SpawnFn(Kind::Complete) } else { Op::Spawn(Kind::Complete) }));
        let other: Vec<Op> = (0..r.usize(4)).map(|_| Op::Spawn(Kind::Yield)).collect();
        let late: Vec<Op> = (0..n / 2).map(|_| Op::Spawn(Kind::Complete)).collect();
        return Scn { seed, small, system_arbiter, busy: true, prior_system, ops: vec![vec![own, other], vec![late]] };
    }
    let senders = 1 + r.usize(if small { 2 } else { 4 });
    let phases = 1 + r.usize(if small { 2 } else { 3 });
    let kinds = [Kind::Complete, Kind::Complete, Kind::Pend, Kind::Panic, Kind::Nested, Kind::Nested, Kind::Yield];
    let self_stop = r.chance(1, 8);
    let mut budget = if small { 6 } else { 12 };
    let mut ops = Vec::new();
    for _ in 0..phases {
        let mut per = Vec::new();
        for _ in 0..senders {
            let n = r.usize(4).min(budget);
            budget -= n;
            let v: Vec<Op> = (0..n)
                .map(|_| {
                    let k = *r.pick(&kinds);
                    match r.usize(12) {
                        0 => Op::Stop,
                        1..=5 => Op::SpawnFn(if k == Kind::Pend || k == Kind::Yield { Kind::Complete } else { k }),
                        _ => Op::Spawn(k),
                    }
                })
                .collect();
            per.push(v);
        }
        ops.push(per);
    }
    if self_stop {
        // one task of the scenario stops the arbiter from the inside
        let slots: Vec<(usize, usize, usize)> = ops
            .iter()
            .enumerate()
            .flat_map(|(p, per)| per.iter().enumerate().flat_map(move |(s, v)| (0..v.len()).map(move |k| (p, s, k))))
            .filter(|(p, s, k)| ops[*p][*s][*k] != Op::Stop)
            .collect();
        if !slots.is_empty() {
            let (p, s, k) = slots[r.usize(slots.len())];
            ops[p][s][k] = Op::Spawn(Kind::StopSelf);
        }
    }
    Scn { seed, small, system_arbiter, busy, prior_system, ops }
}

#[derive(Default)]
struct TaskRec {
    // sender side
    sender: u64,
    phase: u64,
    index_in_sender: u64,
    kind: Option<Kind>,
    ticket: AtomicU64,
    accepted: AtomicU64, // 0 unknown, 1 true, 2 false
    // task side
    entries: AtomicU64,
    start_seq: AtomicU64,
    thread: AtomicU64,
    system_id: AtomicU64,
    probe_thread: AtomicU64,
    /// result of `Arbiter::current().spawn_fn(..)` inside the task: 0 unknown, 1 true, 2 false
    probe_accepted: AtomicU64,
    /// start sequence number of the probe
    probe_seq: AtomicU64,
    dropped: AtomicBool,
}

struct Shared {
    tasks: Vec<TaskRec>,
    start_seq: AtomicU64,
    ticket: AtomicU64,
}

struct DropFlag(Arc<Shared>, usize);
impl Drop for DropFlag {
    fn drop(&mut self) {
        self.0.tasks[self.1].dropped.store(true, Relaxed);
    }
}

fn enter(sh: &Shared, id: usize) {
    let t = &sh.tasks[id];
    t.entries.fetch_add(1, Relaxed);
    t.start_seq.store(sh.start_seq.fetch_add(1, Relaxed) + 1, Relaxed);
    t.thread.store(thread_hash(), Relaxed);
    t.system_id.store(System::try_current().map(|s| s.id() as u64 + 1).unwrap_or(0), Relaxed);
}

fn task_future(sh: Arc<Shared>, id: usize, kind: Kind) -> impl std::future::Future<Output = ()> + Send + 'static {
    async move {
        enter(&sh, id);
        match kind {
            Kind::Complete => {}
            Kind::Pend => {
                let _g = DropFlag(sh.clone(), id);
                std::future::pending::<()>().await;
            }
            Kind::Panic => panic!("scripted task panic"),
            Kind::Nested => {
                let sh2 = sh.clone();
                let ok = Arbiter::current().spawn_fn(move || {
                    sh2.tasks[id].probe_seq.store(sh2.start_seq.fetch_add(1, Relaxed) + 1, Relaxed);
                    sh2.tasks[id].probe_thread.store(thread_hash(), Relaxed);
                });
                sh.tasks[id].probe_accepted.store(if ok { 1 } else { 2 }, Relaxed);
            }
            Kind::Yield => {
                for _ in 0..3 {
                    tokio::task::yield_now().await;
                }
            }
            Kind::StopSelf => {
                let sh2 = sh.clone();
                let cur = Arbiter::current();
                cur.stop();
                let ok = cur.spawn_fn(move || {
                    sh2.tasks[id].probe_thread.store(thread_hash(), Relaxed);
                });
                sh.tasks[id].probe_accepted.store(if ok { 1 } else { 2 }, Relaxed);
            }
        }
    }
}

fn task_fn(sh: Arc<Shared>, id: usize, kind: Kind) -> impl FnOnce() + Send + 'static {
    move || {
        enter(&sh, id);
        match kind {
            Kind::Panic => panic!("scripted task panic"),
            Kind::Nested => {
                let sh2 = sh.clone();
                let ok = Arbiter::current().spawn_fn(move || {
                    sh2.tasks[id].probe_seq.store(sh2.start_seq.fetch_add(1, Relaxed) + 1, Relaxed);
                    sh2.tasks[id].probe_thread.store(thread_hash(), Relaxed);
                });
                sh.tasks[id].probe_accepted.store(if ok { 1 } else { 2 }, Relaxed);
            }
            _ => {}
        }
    }
}

struct Fail {
    sig: String,
    desc: String,
}

enum Outcome {
    Held,
    Violated(Fail),
    Inconclusive(&'static str),
}

#[derive(Default, Clone)]
struct Seen {
    tasks_sent: u64,
    tasks_started: u64,
    fifo_pairs_checked: u64,
    cross_phase_pairs_checked: u64,
    after_stop_tasks_checked: u64,
    spawn_false_after_gone: u64,
    thread_identity_checks: u64,
    nested_probes: u64,
    pend_tasks_dropped_at_join: u64,
    panicking_tasks: u64,
    stops_in_sequence: u64,
    system_arbiter_cases: u64,
    block_on_values: u64,
    busy_phases: u64,
    burst_cases: u64,
    prior_system_cases: u64,
    current_arbiter_probes: u64,
    stops_on_system_arbiter: u64,
    self_stops: u64,
    own_thread_fifo_pairs: u64,
}

fn violated(sig: &str, desc: String) -> Outcome {
    Outcome::Violated(Fail { sig: sig.into(), desc })
}

/// Runs on a fresh thread which becomes the system thread.
fn scenario(scn: &Scn, seen: &mut Seen) -> Outcome {
    let mut rng = Rng::new(scn.seed ^ 0xA5A5);
    if scn.prior_system {
        // this thread has hosted a system (and its arbiter) before: its thread-locals must be replaced, not kept
        let prior = System::new();
        let v = prior.block_on(async {
            let (tx, rx) = tokio::sync::oneshot::channel();
            Arbiter::current().spawn_fn(move || {
                let _ = tx.send(7u8);
            });
            rx.await.unwrap_or(0)
        });
        System::current().stop();
        let _ = prior.run_with_code();
        if v != 7 {
            return violated("C10:prior-system-probe-lost", "a function sent to the first system's arbiter did not run".into());
        }
        seen.prior_system_cases += 1;
    }
    let runner = System::new();
    let sys = System::current();
    let sys_id = sys.id() as u64 + 1;

    // ---- task table
    let mut tasks: Vec<TaskRec> = Vec::new();
    // task 0: identity probe; last task: sentinel
    tasks.push(TaskRec::default());
    let mut plan: Vec<Vec<Vec<(Op, usize)>>> = Vec::new();
    for (p, per) in scn.ops.iter().enumerate() {
        let mut pp = Vec::new();
        for (s, ops) in per.iter().enumerate() {
            let mut v = Vec::new();
            for (k, op) in ops.iter().enumerate() {
                let id = match op {
                    Op::Stop => usize::MAX,
                    Op::Spawn(kind) | Op::SpawnFn(kind) => {
                        tasks.push(TaskRec {
                            sender: s as u64,
                            phase: p as u64,
                            index_in_sender: k as u64,
                            kind: Some(*kind),
                            ..Default::default()
                        });
                        tasks.len() - 1
                    }
                };
                v.push((*op, id));
            }
            pp.push(v);
        }
        plan.push(pp);
    }
    tasks.push(TaskRec::default());
    let sentinel = tasks.len() - 1;
    let sh = Arc::new(Shared {
        tasks,
        start_seq: AtomicU64::new(0),
        ticket: AtomicU64::new(0),
    });

    // ---- target
    let arb = if scn.system_arbiter { None } else { Some(Arbiter::new()) };
    let handle: ArbiterHandle = match &arb {
        Some(a) => a.handle(),
        None => sys.arbiter().clone(),
    };
    if scn.system_arbiter {
        seen.system_arbiter_cases += 1;
    }

    // the system thread's current arbiter is this system's arbiter: a function sent through it runs once the system runs
    let cur_probe = Arc::new(AtomicU64::new(0));
    {
        let c = cur_probe.clone();
        let ok = Arbiter::current().spawn_fn(move || {
            c.store(thread_hash(), Relaxed);
        });
        if !ok {
            return violated(
                "C10:arbiter-current-is-another-arbiter",
                format!("Arbiter::current() on the thread of a freshly created System refused a command: it is not this system's arbiter (prior system on this thread: {})", scn.prior_system),
            );
        }
    }

    // everything that drives the arbiter runs on a coordinator thread, so that the system thread can sit in run()
    let coordinator = {
        let sh = sh.clone();
        let handle = handle.clone();
        let plan = plan.clone();
        let sys = sys.clone();
        let system_arbiter = scn.system_arbiter;
        let seed = scn.seed;
        let busy = scn.busy;
        let self_stop = scn.ops.iter().flatten().flatten().any(|op| *op == Op::Spawn(Kind::StopSelf));
        let self_stop_phase = scn.ops.iter().position(|per| per.iter().flatten().any(|op| *op == Op::Spawn(Kind::StopSelf)));
        thread::spawn(move || -> Result<(bool, u64, Vec<bool>), &'static str> {
            let mut busy_phases: Vec<bool> = Vec::new();
            // identity probe
            {
                let sh2 = sh.clone();
                if !handle.spawn_fn(move || enter(&sh2, 0)) {
                    return Err("target arbiter refused the identity probe");
                }
                match wait_until(|| sh.tasks[0].entries.load(Relaxed) > 0) {
                    Waited::Done(()) => {}
                    Waited::Stuck => return Err("STUCK:identity probe never ran"),
                    Waited::Unknown => return Err("identity probe watchdog"),
                }
            }
            let stop_issued = Arc::new(AtomicBool::new(false));
            let first_stop_phase = Arc::new(AtomicU64::new(u64::MAX));
            for (p, per) in plan.iter().enumerate() {
                let barrier = Arc::new(Barrier::new(per.len()));
                let mut ths = Vec::new();
                // keep the loop busy while this phase's commands are queued
                let release = Arc::new(AtomicBool::new(false));
                let mut blocked = false;
                // (a task that stops the arbiter from the inside may already have run once its phase was sent: later phases
                // are sent to an arbiter that may be gone, and are not held)
                if busy && !stop_issued.load(Relaxed) && self_stop_phase.map(|sp| p <= sp).unwrap_or(true) {
                    let entered = Arc::new(AtomicBool::new(false));
                    let (e2, r2) = (entered.clone(), release.clone());
                    let ok = handle.spawn_fn(move || {
                        e2.store(true, Relaxed);
                        let t0 = std::time::Instant::now();
                        while !r2.load(Relaxed) && t0.elapsed() < Duration::from_secs(20) {
                            if cfg!(miri) {
                                thread::yield_now();
                            } else {
                                thread::sleep(Duration::from_micros(100));
                            }
                        }
                    });
                    if !ok {
                        return Err("VIOLATION:spawn returned false on a running arbiter");
                    }
                    match wait_until(|| entered.load(Relaxed)) {
                        Waited::Done(()) => {}
                        Waited::Stuck => return Err("STUCK:blocker never ran"),
                        Waited::Unknown => {
                            release.store(true, Relaxed);
                            return Err("blocker watchdog");
                        }
                    }
                    blocked = true;
                }
                busy_phases.push(blocked);
                for (s, ops) in per.iter().enumerate() {
                    let (sh, handle, ops, barrier) = (sh.clone(), handle.clone(), ops.clone(), barrier.clone());
                    let (stop_issued, first_stop_phase) = (stop_issued.clone(), first_stop_phase.clone());
                    let mut r = Rng::new(seed ^ ((p as u64) << 32) ^ s as u64);
                    ths.push(thread::spawn(move || {
                        barrier.wait();
                        for (op, id) in ops {
                            jitter(&mut r);
                            match op {
                                Op::Stop => {
                                    handle.stop();
                                    // anything sent later by this thread, or by anyone in a later phase, is sent after this stop returned
                                    stop_issued.store(true, Relaxed);
                                    first_stop_phase.fetch_min(p as u64, Relaxed);
                                }
                                Op::Spawn(kind) => {
                                    sh.tasks[id].ticket.store(sh.ticket.fetch_add(1, Relaxed) + 1, Relaxed);
                                    let ok = handle.spawn(task_future(sh.clone(), id, kind));
                                    sh.tasks[id].accepted.store(if ok { 1 } else { 2 }, Relaxed);
                                }
                                Op::SpawnFn(kind) => {
                                    sh.tasks[id].ticket.store(sh.ticket.fetch_add(1, Relaxed) + 1, Relaxed);
                                    let ok = handle.spawn_fn(task_fn(sh.clone(), id, kind));
                                    sh.tasks[id].accepted.store(if ok { 1 } else { 2 }, Relaxed);
                                }
                            }
                        }
                    }));
                }
                for t in ths {
                    let _ = t.join();
                }
                if blocked {
                    release.store(true, Relaxed);
                }
            }
            let stopped = stop_issued.load(Relaxed);
            // sentinel: by FIFO, once it has run everything accepted before it has started
            if !stopped && !self_stop {
                let sh2 = sh.clone();
                sh.tasks[sentinel_of(&sh)].ticket.store(sh.ticket.fetch_add(1, Relaxed) + 1, Relaxed);
                let ok = handle.spawn_fn(move || {
                    let id = sentinel_of(&sh2);
                    enter(&sh2, id)
                });
                if !ok {
                    return Err("VIOLATION:spawn returned false on a running arbiter");
                }
                match wait_until(|| sh.tasks[sentinel_of(&sh)].entries.load(Relaxed) > 0) {
                    Waited::Done(()) => {}
                    Waited::Stuck => return Err("STUCK:sentinel never ran"),
                    Waited::Unknown => return Err("sentinel watchdog"),
                }
            }
            if system_arbiter {
                sys.stop();
            } else {
                handle.stop();
            }
            Ok((stopped, first_stop_phase.load(Relaxed), busy_phases))
        })
    };
    let _ = sentinel;

    // the system thread runs the system until the coordinator is done (dedicated arbiter) / stops it (system arbiter)
    let coord_res;
    if scn.system_arbiter {
        let _ = runner.run_with_code();
        coord_res = coordinator.join();
    } else {
        coord_res = coordinator.join();
        // let the system's own loop run long enough to get to the probe, whatever order its tasks are polled in
        let c = cur_probe.clone();
        runner.block_on(async move {
            for _ in 0..200 {
                if c.load(Relaxed) != 0 {
                    break;
                }
                tokio::task::yield_now().await;
            }
        });
        sys.stop();
        let _ = runner.run_with_code();
    }
    let (stopped, first_stop_phase, busy_phases) = match coord_res {
        Ok(Ok(x)) => x,
        Ok(Err(e)) => {
            if let Some(w) = e.strip_prefix("STUCK:") {
                return violated("C10:accepted-task-never-started", format!("{w}; process quiescent"));
            }
            if let Some(w) = e.strip_prefix("VIOLATION:") {
                return violated("C10:spawn-false-on-running-arbiter", w.to_string());
            }
            return Outcome::Inconclusive("coordinator watchdog");
        }
        Err(_) => return violated("C10:panic", "coordinator panicked".into()),
    };
    jitter(&mut rng);
    seen.busy_phases += busy_phases.iter().filter(|b| **b).count() as u64;
    let self_stop = scn.ops.iter().flatten().flatten().any(|op| *op == Op::Spawn(Kind::StopSelf));
    // a stop somewhere in the history: sent by a sender thread, or by a task from the inside
    let stopped_by_sender = stopped;
    let stopped = stopped || self_stop;
    if scn.ops.iter().flatten().any(|v| v.len() > 100) {
        seen.burst_cases += 1;
    }
    if stopped_by_sender && scn.system_arbiter {
        seen.stops_on_system_arbiter += 1;
    }
    // the system has run: the probe sent through the system thread's Arbiter::current() ran there (unless the system
    // arbiter was stopped by the scenario before it got to it: it was first in the queue, so it never is)
    {
        let t = cur_probe.load(Relaxed);
        seen.current_arbiter_probes += 1;
        if t != thread_hash() {
            return violated(
                "C10:arbiter-current-is-another-arbiter",
                format!("a function accepted by Arbiter::current() on the system thread {} (prior system on this thread: {})", if t == 0 { "never ran" } else { "ran on another thread" }, scn.prior_system),
            );
        }
    }

    // ---- join, then read everything
    if let Some(a) = arb {
        match with_watchdog(move || a.join().is_ok()) {
            Waited::Done(_) => {}
            Waited::Stuck => return violated("C10:join-hangs-after-stop", "join() did not return after stop(); process quiescent".into()),
            Waited::Unknown => return Outcome::Inconclusive("join watchdog"),
        }
    }
    // the arbiter is gone: spawn must report false
    {
        let sh2 = sh.clone();
        let late = handle.spawn_fn(move || {
            sh2.tasks[0].entries.fetch_add(100, Relaxed);
        });
        if late {
            return violated("C10:spawn-true-after-arbiter-gone", "spawn_fn returned true after join() returned / the system stopped".into());
        }
        seen.spawn_false_after_gone += 1;
    }

    let arb_thread = sh.tasks[0].thread.load(Relaxed);
    if scn.system_arbiter && arb_thread != thread_hash() {
        return violated("C10:system-arbiter-task-on-wrong-thread", "task sent to System::arbiter() ran on a thread other than the system thread".into());
    }
    if !scn.system_arbiter && arb_thread == thread_hash() {
        return violated("C10:task-ran-on-sender-thread", "task sent to a dedicated arbiter ran on the system thread".into());
    }

    let n = sh.tasks.len();
    let mut started: Vec<(u64, usize)> = Vec::new();
    for (id, t) in sh.tasks.iter().enumerate() {
        let e = t.entries.load(Relaxed);
        if id == 0 {
            if e != 1 {
                return violated("C10:task-ran-after-arbiter-gone-or-twice", format!("identity probe entry count {e}"));
            }
            continue;
        }
        if t.kind.is_some() {
            seen.tasks_sent += 1;
        }
        if e > 1 {
            return violated("C10:task-ran-twice", format!("task {id} ({:?}) was entered {e} times", t.kind));
        }
        if e == 1 {
            seen.tasks_started += 1;
            started.push((t.start_seq.load(Relaxed), id));
            seen.thread_identity_checks += 1;
            if t.thread.load(Relaxed) != arb_thread {
                return violated("C10:task-on-wrong-thread", format!("task {id} ran on a thread other than the arbiter's"));
            }
            if t.system_id.load(Relaxed) != sys_id {
                return violated("C10:wrong-current-system", format!("task {id} saw System::current().id() = {:?}, expected {}", t.system_id.load(Relaxed).checked_sub(1), sys_id - 1));
            }
            if t.accepted.load(Relaxed) == 2 {
                return violated("C10:rejected-task-ran", format!("task {id}: spawn returned false but the task ran"));
            }
            if t.kind == Some(Kind::Nested) {
                let p = t.probe_thread.load(Relaxed);
                // the task runs on the arbiter's loop, which (no stop was sent by the scenario) is running: its current
                // arbiter accepts commands
                if !stopped && t.probe_accepted.load(Relaxed) == 2 {
                    return violated("C10:arbiter-current-is-another-arbiter", format!("Arbiter::current() inside task {id} refused a command while the arbiter was running (prior system on this thread: {})", scn.prior_system));
                }
                if p != 0 {
                    seen.nested_probes += 1;
                    if p != arb_thread {
                        return violated("C10:arbiter-current-is-another-arbiter", format!("probe spawned through Arbiter::current() inside task {id} ran on another thread"));
                    }
                }
            }
            if t.kind == Some(Kind::Panic) {
                seen.panicking_tasks += 1;
            }
            if t.kind == Some(Kind::StopSelf) {
                seen.self_stops += 1;
                if t.probe_thread.load(Relaxed) != 0 {
                    return violated(
                        "C10:task-started-after-stop",
                        format!("task {id} stopped its own arbiter through Arbiter::current() and then sent a function through the same handle: the function started (spawn_fn returned {})", t.probe_accepted.load(Relaxed) == 1),
                    );
                }
            }
            // FIFO includes commands sent from the arbiter's own thread: in a phase sent while the arbiter was held busy,
            // every command of that phase was sent (its sender joined) before the arbiter ran any of them, so before a
            // nested probe was sent; the probe therefore starts after every one of them that starts at all
            if t.kind == Some(Kind::Nested) && busy_phases.get(t.phase as usize).copied().unwrap_or(false) {
                let ps = t.probe_seq.load(Relaxed);
                if ps != 0 {
                    for (xid, x) in sh.tasks.iter().enumerate().skip(1) {
                        if x.kind.is_none() || x.phase != t.phase || xid == id {
                            continue;
                        }
                        seen.own_thread_fifo_pairs += 1;
                        if x.entries.load(Relaxed) == 1 && x.start_seq.load(Relaxed) > ps {
                            return violated(
                                "C10:fifo-violated",
                                format!("task {xid} was sent by another thread before the arbiter ran task {id}; the function task {id} sent through Arbiter::current() started before task {xid} (overtook the queue)"),
                            );
                        }
                    }
                }
            }
            if t.kind == Some(Kind::Pend) {
                // join() returned (or the system ended): the loop and its runtime are gone, parked tasks were dropped
                if !t.dropped.load(Relaxed) {
                    return violated("C10:join-returned-before-loop-ended", format!("parked task {id} still alive after join()/run returned"));
                }
                seen.pend_tasks_dropped_at_join += 1;
            }
        }
    }

    // FIFO per sender (program order), and across phases (barrier order)
    for a in 1..n {
        for b in 1..n {
            if a == b {
                continue;
            }
            let (ta, tb) = (&sh.tasks[a], &sh.tasks[b]);
            if ta.kind.is_none() || tb.kind.is_none() {
                continue;
            }
            let same_sender_before = ta.sender == tb.sender && ta.phase == tb.phase && ta.index_in_sender < tb.index_in_sender;
            let earlier_phase = ta.phase < tb.phase;
            if !(same_sender_before || earlier_phase) {
                continue;
            }
            // a was sent (happens-)before b
            let (ea, eb) = (ta.entries.load(Relaxed), tb.entries.load(Relaxed));
            if earlier_phase {
                seen.cross_phase_pairs_checked += 1;
            } else {
                seen.fifo_pairs_checked += 1;
            }
            if ea == 1 && eb == 1 && ta.start_seq.load(Relaxed) > tb.start_seq.load(Relaxed) {
                return violated(
                    "C10:fifo-violated",
                    format!("task {a} was sent before task {b} ({}) but started after it", if earlier_phase { "earlier phase" } else { "same sender" }),
                );
            }
            if ea == 0 && eb == 1 && ta.accepted.load(Relaxed) == 1 {
                return violated("C10:accepted-task-skipped", format!("task {a} (accepted, sent before task {b}) never started although task {b} did"));
            }
        }
    }
    // without any stop before the sentinel, every accepted task must have started
    if !stopped {
        for (id, t) in sh.tasks.iter().enumerate().skip(1) {
            if t.kind.is_some() && t.accepted.load(Relaxed) == 1 && t.entries.load(Relaxed) == 0 {
                return violated("C10:accepted-task-skipped", format!("task {id} was accepted and never started although the sentinel sent after it ran"));
            }
        }
    } else {
        seen.stops_in_sequence += 1;
        // nothing sent after a stop() that happened-before it ever starts
        for (id, t) in sh.tasks.iter().enumerate().skip(1) {
            if t.kind.is_none() {
                continue;
            }
            let after_stop = t.phase > first_stop_phase
                || plan[t.phase as usize][t.sender as usize]
                    .iter()
                    .take(t.index_in_sender as usize)
                    .any(|(op, _)| *op == Op::Stop);
            if after_stop {
                seen.after_stop_tasks_checked += 1;
                if t.entries.load(Relaxed) > 0 {
                    return violated("C10:task-started-after-stop", format!("task {id} was sent after stop() had returned but it started"));
                }
            }
        }
    }
    let _ = started;
    Outcome::Held
}

fn sentinel_of(sh: &Shared) -> usize {
    sh.tasks.len() - 1
}

/// `block_on` returns exactly its future's output.
fn block_on_checks(rng: &mut Rng, seen: &mut Seen) -> Outcome {
    let v = rng.next_u64();
    let s = format!("s{v}");
    let h = thread::spawn(move || {
        let rt = actix_rt::Runtime::new().unwrap();
        let local = String::from("borrowed");
        let a = rt.block_on(async { v });
        let b = rt.block_on(async {
            let j = actix_rt::spawn(async move { v.wrapping_mul(3) });
            tokio::task::yield_now().await;
            (j.await.unwrap(), local.len())
        });
        let c: Result<String, u8> = rt.block_on(async {
            tokio::time::sleep(Duration::from_millis(1)).await;
            Ok(s.clone())
        });
        let runner = System::new();
        let d = runner.block_on(async { (v ^ 1, System::current().id()) });
        let e = runner.block_on(async {
            let (tx, rx) = tokio::sync::oneshot::channel();
            Arbiter::current().spawn(async move {
                let _ = tx.send(v.wrapping_add(9));
            });
            rx.await.unwrap()
        });
        (a, b, c, d.0, e, s)
    });
    match h.join() {
        Ok((a, b, c, d, e, s)) => {
            seen.block_on_values += 5;
            if a != v || b != (v.wrapping_mul(3), 8) || c != Ok(s) || d != (v ^ 1) || e != v.wrapping_add(9) {
                return violated("C10:block-on-wrong-output", format!("block_on returned something other than its future's output (v={v})"));
            }
            Outcome::Held
        }
        Err(_) => violated("C10:panic", "block_on scenario panicked".into()),
    }
}

fn run_scn(scn: &Scn, seen: &mut Seen) -> Outcome {
    let s2 = scn.clone();
    let (tx, rx) = std::sync::mpsc::channel();
    let h = thread::spawn(move || {
        let mut seen = Seen::default();
        let r = std::panic::catch_unwind(std::panic::AssertUnwindSafe(|| scenario(&s2, &mut seen)));
        let _ = tx.send((r, seen));
    });
    let got = if cfg!(miri) { rx.recv().ok() } else { rx.recv_timeout(Duration::from_secs(120)).ok() };
    match got {
        Some((r, s)) => {
            let _ = h.join();
            merge(seen, &s);
            match r {
                Ok(o) => o,
                Err(e) => {
                    let msg = e.downcast_ref::<&str>().map(|s| s.to_string()).or_else(|| e.downcast_ref::<String>().cloned()).unwrap_or_default();
                    violated("C10:panic", format!("scenario panicked: {msg}"))
                }
            }
        }
        None => match vh_core::proc::quiescent(Duration::from_millis(1500)) {
            Some(true) => violated("C10:scenario-never-finishes", "scenario thread never finished; process quiescent".into()),
            _ => Outcome::Inconclusive("scenario watchdog"),
        },
    }
}

fn merge(a: &mut Seen, b: &Seen) {
    a.tasks_sent += b.tasks_sent;
    a.tasks_started += b.tasks_started;
    a.fifo_pairs_checked += b.fifo_pairs_checked;
    a.cross_phase_pairs_checked += b.cross_phase_pairs_checked;
    a.after_stop_tasks_checked += b.after_stop_tasks_checked;
    a.spawn_false_after_gone += b.spawn_false_after_gone;
    a.thread_identity_checks += b.thread_identity_checks;
    a.nested_probes += b.nested_probes;
    a.pend_tasks_dropped_at_join += b.pend_tasks_dropped_at_join;
    a.panicking_tasks += b.panicking_tasks;
    a.stops_in_sequence += b.stops_in_sequence;
    a.system_arbiter_cases += b.system_arbiter_cases;
    a.block_on_values += b.block_on_values;
    a.busy_phases += b.busy_phases;
    a.burst_cases += b.burst_cases;
    a.prior_system_cases += b.prior_system_cases;
    a.current_arbiter_probes += b.current_arbiter_probes;
    a.stops_on_system_arbiter += b.stops_on_system_arbiter;
    a.self_stops += b.self_stops;
    a.own_thread_fifo_pairs += b.own_thread_fifo_pairs;
}

pub fn run(args: &Args, rep: &mut Report) {
    let mut seen = Seen::default();
    if let Some(p) = &args.replay {
        let v: Value = serde_json::from_str(&std::fs::read_to_string(p).expect("replay file")).unwrap();
        let scn = gen_from_seed(v["case_seed"].as_u64().expect("case_seed"), v["small"].as_bool().unwrap_or(false));
        let mut reproduced = 0;
        for _ in 0..20 {
            rep.evaluations += 1;
            if let Outcome::Violated(f) = run_scn(&scn, &mut seen) {
                reproduced += 1;
                rep.violation(f.sig, f.desc, scn.to_json());
            }
        }
        rep.note(format!("replay: {reproduced}/20 runs reproduced a violation"));
        rep.rule = "replay: the recorded scenario re-run 20 times".into();
        return;
    }

    let n = match args.tier.as_str() {
        "thorough" => 300_000u64,
        "miri" => 5,
        "tsan" => 4_000,
        _ => 20_000,
    };
    let n = args.extra_u64("n", n);
    let mut rng = Rng::new(args.seed ^ 0xC10).fork(args.shard);
    for i in 0..n {
        if !args.mine(i) {
            continue;
        }
        let scn = gen_from_seed(rng.next_u64(), args.slow());
        rep.evaluations += 1;
        if rep.violations_total >= 5 {
            rep.note("stopped early after 5 violations");
            break;
        }
        let mut outcome = run_scn(&scn, &mut seen);
        let mut tries = 0;
        while let Outcome::Inconclusive(_) = outcome {
            tries += 1;
            if tries > 2 {
                break;
            }
            outcome = run_scn(&scn, &mut seen);
        }
        match outcome {
            Outcome::Held => {
                if scn.ops.iter().flatten().flatten().count() >= 2 {
                    rep.nontrivial(fnv_str(&scn.signature()));
                }
            }
            Outcome::Violated(f) => rep.violation(f.sig, format!("{} [{}]", f.desc, scn.signature()), scn.to_json()),
            Outcome::Inconclusive(why) => rep.inconclusive(why),
        }
        if i < 3 * args.nshards {
            rep.sample(|| scn.to_json());
        }
        if i % 64 == 0 || args.slow() {
            rep.evaluations += 1;
            if let Outcome::Violated(f) = block_on_checks(&mut rng, &mut seen) {
                rep.violation(f.sig, f.desc, json!({"prop": "C10", "kind": "block_on"}));
            }
        }
    }
    rep.rule = "seeded random scenarios (1/3 with the arbiter kept busy while each phase is sent so that everything is queued at once; 1/4 on a thread that hosted another System before; 1/40 a burst of 140..260 commands behind a stop on a busy arbiter): up to 12 commands {spawn, spawn_fn, stop} over task kinds {complete, pend forever, panic, nested probe via Arbiter::current(), yielding} sent in 1..3 barrier-separated phases by 1..4 sender threads through cloned ArbiterHandles, \
                to a dedicated arbiter or to the system arbiter; a ticket is taken before each send and the boolean result recorded after it; tasks stamp (entry count, start sequence, thread, System::current().id()) into per-task atomics read after join. \
                Oracle: per-sender and cross-phase FIFO of starts, entry count <= 1, thread = arbiter's thread, current system/arbiter identity, nothing sent after a returned stop() starts, accepted tasks before a running sentinel all started, spawn false after the arbiter is gone, parked tasks dropped when join returns; plus block_on output checks. \
                Distinct = distinct scenario (target, op lists); non-trivial = at least 2 commands."
        .into();
    rep.add("obs_tasks_sent", seen.tasks_sent);
    rep.add("obs_tasks_started", seen.tasks_started);
    rep.add("obs_fifo_pairs_same_sender", seen.fifo_pairs_checked);
    rep.add("obs_fifo_pairs_cross_phase", seen.cross_phase_pairs_checked);
    rep.add("obs_tasks_sent_after_stop_checked", seen.after_stop_tasks_checked);
    rep.add("obs_spawn_false_after_gone", seen.spawn_false_after_gone);
    rep.add("obs_thread_identity_checks", seen.thread_identity_checks);
    rep.add("obs_nested_probes_landed", seen.nested_probes);
    rep.add("obs_parked_tasks_dropped_at_join", seen.pend_tasks_dropped_at_join);
    rep.add("obs_panicking_tasks_started", seen.panicking_tasks);
    rep.add("obs_scenarios_with_stop", seen.stops_in_sequence);
    rep.add("obs_system_arbiter_scenarios", seen.system_arbiter_cases);
    rep.add("obs_block_on_values", seen.block_on_values);
    rep.add("obs_phases_sent_to_busy_arbiter", seen.busy_phases);
    rep.add("obs_burst_after_stop_scenarios", seen.burst_cases);
    rep.add("obs_prior_system_on_thread_scenarios", seen.prior_system_cases);
    rep.add("obs_current_arbiter_probes_on_system_thread", seen.current_arbiter_probes);
    rep.add("obs_scenarios_with_stop_on_system_arbiter", seen.stops_on_system_arbiter);
    rep.add("obs_tasks_stopping_their_own_arbiter", seen.self_stops);
    rep.add("obs_own_thread_fifo_pairs", seen.own_thread_fifo_pairs);
}
