//! C16 — local-channel: FIFO, exactly once, clean closure, no lost wake-up.
//!
//! Real `local_channel::mpsc` driven by operation sequences; every return
//! value and every wake of an identified waker is compared with a reference
//! queue model after each operation.

use std::{
    collections::VecDeque,
    future::Future,
    pin::Pin,
    sync::Arc,
    task::{Context, Poll},
};

use futures_core::Stream;
use futures_sink::Sink;
use local_channel::mpsc;
use vh_core::{
    exec::{new_waker, reset_wakers, WakeRec},
    fnv_str, json, Args, Report, Rng, Value,
};

#[derive(Clone, Copy, Debug, PartialEq, Eq)]
pub enum Op {
    /// send the next unique value through live sender #i
    Send(usize),
    /// same, through `Sink::start_send`
    SinkSend(usize),
    Clone(usize),
    DropS(usize),
    Close(usize),
    /// `Stream::poll_next` with a fresh waker
    Poll,
    /// one poll of a fresh `recv()` future with a fresh waker
    Recv,
    RecvSender,
    DropR,
}

impl Op {
    fn code(&self) -> String {
        match self {
            Op::Send(i) => format!("S{i}"),
            Op::SinkSend(i) => format!("K{i}"),
            Op::Clone(i) => format!("C{i}"),
            Op::DropS(i) => format!("D{i}"),
            Op::Close(i) => format!("X{i}"),
            Op::Poll => "P".into(),
            Op::Recv => "R".into(),
            Op::RecvSender => "N".into(),
            Op::DropR => "Z".into(),
        }
    }

    fn parse(s: &str) -> Option<Op> {
        let (k, rest) = s.split_at(1);
        let i = rest.parse::<usize>().ok();
        Some(match k {
            "S" => Op::Send(i?),
            "K" => Op::SinkSend(i?),
            "C" => Op::Clone(i?),
            "D" => Op::DropS(i?),
            "X" => Op::Close(i?),
            "P" => Op::Poll,
            "R" => Op::Recv,
            "N" => Op::RecvSender,
            "Z" => Op::DropR,
            _ => return None,
        })
    }
}

pub fn seq_code(ops: &[Op]) -> String {
    ops.iter().map(|o| o.code()).collect::<Vec<_>>().join(",")
}

/// Reference model.
#[derive(Clone, Debug, Default)]
struct Model {
    queue: VecDeque<u32>,
    closed: bool,
    senders: usize,
    receiver_alive: bool,
    /// a poll returned Pending and nothing that must wake it has happened since
    parked: bool,
    next_val: u32,
}

impl Model {
    fn new() -> Model {
        Model {
            senders: 1,
            receiver_alive: true,
            ..Default::default()
        }
    }

    /// Operations that are valid in this state, with at most `max_senders` live senders.
    /// `full` = distinguish every sender index; otherwise first/last only.
    fn ops(&self, max_senders: usize, variants: bool) -> Vec<Op> {
        let mut v = Vec::new();
        let n = self.senders;
        let mut idx: Vec<usize> = Vec::new();
        if n > 0 {
            idx.push(0);
            if n > 1 {
                idx.push(n - 1);
            }
        }
        for &i in &idx {
            v.push(Op::Send(i));
            if variants {
                v.push(Op::SinkSend(i));
            }
            v.push(Op::DropS(i));
        }
        if n > 0 {
            v.push(Op::Close(0));
            if n < max_senders {
                v.push(Op::Clone(0));
            }
        }
        if self.receiver_alive {
            v.push(Op::Poll);
            if variants {
                v.push(Op::Recv);
            }
            if n < max_senders {
                v.push(Op::RecvSender);
            }
            v.push(Op::DropR);
        }
        v
    }

    /// Apply `op` to the model only (used by the enumerator).
    fn step(&mut self, op: Op) {
        match op {
            Op::Send(_) | Op::SinkSend(_) => {
                let v = self.next_val;
                self.next_val += 1;
                if self.receiver_alive && !self.closed {
                    self.queue.push_back(v);
                    self.parked = false;
                }
            }
            Op::Clone(_) | Op::RecvSender => self.senders += 1,
            Op::DropS(_) => {
                self.senders -= 1;
                if self.senders == 0 {
                    self.parked = false;
                }
            }
            Op::Close(_) => {
                self.closed = true;
                self.parked = false;
            }
            Op::Poll | Op::Recv => {
                if self.queue.pop_front().is_some() {
                } else if self.closed || self.senders == 0 {
                } else {
                    self.parked = true;
                }
            }
            Op::DropR => {
                self.receiver_alive = false;
                self.queue.clear();
                self.parked = false;
            }
        }
    }
}

struct Fail {
    sig: String,
    desc: String,
    at: usize,
}

#[derive(Default)]
struct Seen {
    pendings: u64,
    wakes_by_send: u64,
    wakes_by_last_drop: u64,
    wakes_by_close: u64,
    none_after_close: u64,
    none_after_senders_gone: u64,
    send_rejected: u64,
    received: u64,
    drained_after_close: u64,
    spurious_wakes: u64,
}

/// Run one operation sequence against the real channel, comparing with the model after every op.
fn run_case(ops: &[Op], seen: &mut Seen) -> Result<(), Fail> {
    reset_wakers();
    let (tx, rx) = mpsc::channel::<u32>();
    let mut senders: Vec<mpsc::Sender<u32>> = vec![tx];
    let mut rx = Some(rx);
    let mut m = Model::new();
    // the waker of the poll that parked the receiver, and its wake count at that time
    let mut parked: Option<Arc<WakeRec>> = None;
    let mut waker_no = 0u64;
    let mut received: Vec<u32> = Vec::new();
    let mut accepted: Vec<u32> = Vec::new();

    let ctx = |m: &Model| {
        format!(
            "closed={} senders={} queue={}",
            m.closed as u8,
            if m.senders == 0 { "0" } else { ">0" },
            if m.queue.is_empty() { "empty" } else { "nonempty" }
        )
    };

    for (at, &op) in ops.iter().enumerate() {
        let fail = |sig: String, desc: String| Fail { sig, desc, at };
        // what must happen to the parked waker because of this op
        let mut must_wake: Option<&'static str> = None;
        match op {
            Op::Send(i) | Op::SinkSend(i) => {
                let v = m.next_val;
                m.next_val += 1;
                let expect_ok = m.receiver_alive && !m.closed;
                let res = if let Op::Send(_) = op {
                    senders[i].send(v)
                } else {
                    let mut p = Pin::new(&mut senders[i]);
                    let (w, _) = new_waker(1_000_000 + at as u64);
                    let mut cx = Context::from_waker(&w);
                    match p.as_mut().poll_ready(&mut cx) {
                        Poll::Ready(Ok(())) => {}
                        other => {
                            return Err(fail(
                                "C16:sink-poll-ready:not-ready".into(),
                                format!("Sink::poll_ready returned {other:?} on an unbounded channel"),
                            ))
                        }
                    }
                    p.start_send(v)
                };
                match (res, expect_ok) {
                    (Ok(()), true) => {
                        m.queue.push_back(v);
                        accepted.push(v);
                        if m.parked {
                            must_wake = Some("send");
                        }
                    }
                    (Err(e), false) => {
                        seen.send_rejected += 1;
                        if e.into_inner() != v {
                            return Err(fail(
                                "C16:send:error-carries-wrong-value".into(),
                                "SendError did not return the rejected message".into(),
                            ));
                        }
                    }
                    (Ok(()), false) => {
                        return Err(fail(
                            format!(
                                "C16:send:accepted-after-{}",
                                if !m.receiver_alive { "receiver-drop" } else { "close" }
                            ),
                            format!("send({v}) succeeded although the channel is closed ({})", ctx(&m)),
                        ))
                    }
                    (Err(_), true) => {
                        return Err(fail(
                            "C16:send:rejected-while-open".into(),
                            format!("send({v}) failed although receiver is alive and channel open ({})", ctx(&m)),
                        ))
                    }
                }
            }
            Op::Clone(i) => {
                let s = senders[i].clone();
                senders.push(s);
                m.senders += 1;
            }
            Op::RecvSender => {
                let s = rx.as_ref().unwrap().sender();
                senders.push(s);
                m.senders += 1;
            }
            Op::DropS(i) => {
                drop(senders.remove(i));
                m.senders -= 1;
                if m.senders == 0 && m.parked && m.receiver_alive {
                    must_wake = Some("last-sender-drop");
                }
            }
            Op::Close(i) => {
                senders[i].close();
                m.closed = true;
                if m.parked && m.receiver_alive {
                    must_wake = Some("close");
                }
            }
            Op::Poll | Op::Recv => {
                let (w, rec) = new_waker(waker_no);
                waker_no += 1;
                let mut cx = Context::from_waker(&w);
                let r = rx.as_mut().unwrap();
                let got = if op == Op::Poll {
                    Pin::new(r).poll_next(&mut cx)
                } else {
                    let mut fut = Box::pin(r.recv());
                    fut.as_mut().poll(&mut cx)
                };
                let front = m.queue.front().copied();
                match (got, front) {
                    (Poll::Ready(Some(x)), Some(f)) => {
                        if x != f {
                            return Err(fail(
                                "C16:poll:wrong-order".into(),
                                format!("received {x}, model front is {f} (FIFO broken)"),
                            ));
                        }
                        m.queue.pop_front();
                        received.push(x);
                        seen.received += 1;
                        if m.closed || m.senders == 0 {
                            seen.drained_after_close += 1;
                        }
                    }
                    (Poll::Ready(Some(x)), None) => {
                        return Err(fail(
                            "C16:poll:item-from-empty".into(),
                            format!("received {x} but nothing is buffered (duplicate / invented message)"),
                        ))
                    }
                    (Poll::Ready(None), Some(f)) => {
                        return Err(fail(
                            "C16:poll:none-with-buffered".into(),
                            format!("stream ended while message {f} is still buffered ({})", ctx(&m)),
                        ))
                    }
                    (Poll::Ready(None), None) => {
                        if m.closed {
                            seen.none_after_close += 1;
                        } else if m.senders == 0 {
                            seen.none_after_senders_gone += 1;
                        } else {
                            return Err(fail(
                                "C16:poll:none-while-open".into(),
                                format!("stream ended while the channel is open with live senders ({})", ctx(&m)),
                            ));
                        }
                    }
                    (Poll::Pending, Some(f)) => {
                        return Err(fail(
                            "C16:poll:pending-with-buffered".into(),
                            format!("Pending although message {f} is buffered ({})", ctx(&m)),
                        ))
                    }
                    (Poll::Pending, None) => {
                        if m.closed || m.senders == 0 {
                            return Err(fail(
                                format!(
                                    "C16:poll:pending-expected-none:{}",
                                    if m.closed && m.senders > 0 {
                                        "closed-live-sender"
                                    } else if m.closed {
                                        "closed-no-sender"
                                    } else {
                                        "no-sender"
                                    }
                                ),
                                format!(
                                    "poll returned Pending but the channel can never deliver again ({}); expected None",
                                    ctx(&m)
                                ),
                            ));
                        }
                        seen.pendings += 1;
                        m.parked = true;
                        parked = Some(rec);
                    }
                }
            }
            Op::DropR => {
                drop(rx.take());
                m.receiver_alive = false;
                m.queue.clear();
                m.parked = false;
                parked = None;
            }
        }

        if let Some(why) = must_wake {
            let rec = parked.take().expect("model parked without waker");
            m.parked = false;
            if rec.wakes() == 0 {
                return Err(fail(
                    format!("C16:lost-wakeup:{why}"),
                    format!(
                        "receiver returned Pending (waker #{}) and was not woken by {why} ({})",
                        rec.id,
                        ctx(&m)
                    ),
                ));
            }
            match why {
                "send" => seen.wakes_by_send += 1,
                "close" => seen.wakes_by_close += 1,
                _ => seen.wakes_by_last_drop += 1,
            }
            if rec.wakes() > 1 {
                seen.spurious_wakes += 1;
            }
        }
    }

    // exactly-once / order: what was received is a prefix of what was accepted
    if received.len() > accepted.len() || received[..] != accepted[..received.len()] {
        return Err(Fail {
            sig: "C16:history:received-not-prefix-of-accepted".into(),
            desc: format!("accepted {accepted:?} received {received:?}"),
            at: ops.len(),
        });
    }
    Ok(())
}

fn report_case(rep: &mut Report, ops: &[Op], seen: &mut Seen) {
    rep.evaluations += 1;
    match vh_core::catch(|| run_case(ops, seen)) {
        Ok(Ok(())) => {}
        Ok(Err(f)) => rep.violation(
            f.sig,
            format!("{} [ops={} failing-op-index={}]", f.desc, seq_code(ops), f.at),
            json!({"prop": "C16", "ops": seq_code(ops)}),
        ),
        Err(p) => rep.violation(
            "C16:panic",
            format!("panic: {p} [ops={}]", seq_code(ops)),
            json!({"prop": "C16", "ops": seq_code(ops)}),
        ),
    }
}

fn nontrivial(ops: &[Op]) -> bool {
    // a case is non-trivial if it contains a receive attempt and a send or a closure event
    let has_poll = ops.iter().any(|o| matches!(o, Op::Poll | Op::Recv));
    let has_other = ops
        .iter()
        .any(|o| matches!(o, Op::Send(_) | Op::SinkSend(_) | Op::Close(_) | Op::DropS(_)));
    has_poll && has_other
}

fn enumerate(
    m: &Model,
    prefix: &mut Vec<Op>,
    depth: usize,
    max_senders: usize,
    leaf_no: &mut u64,
    args: &Args,
    rep: &mut Report,
    seen: &mut Seen,
) {
    let ops = if prefix.len() < depth { m.ops(max_senders, false) } else { Vec::new() };
    if ops.is_empty() {
        let n = *leaf_no;
        *leaf_no += 1;
        if args.mine(n) {
            report_case(rep, prefix, seen);
            if nontrivial(prefix) {
                rep.distinct_counted += 1;
            }
            rep.sample_spread(|| json!({"ops": seq_code(prefix)}));
        }
        return;
    }
    for op in ops {
        let mut m2 = m.clone();
        m2.step(op);
        prefix.push(op);
        enumerate(&m2, prefix, depth, max_senders, leaf_no, args, rep, seen);
        prefix.pop();
    }
}

fn random_case(rng: &mut Rng, len: usize) -> Vec<Op> {
    let mut m = Model::new();
    let mut ops = Vec::with_capacity(len);
    for _ in 0..len {
        let mut avail = m.ops(3, true);
        // keep long histories alive: make terminal ops rare
        if rng.chance(9, 10) {
            avail.retain(|o| !matches!(o, Op::DropR | Op::Close(_)));
        }
        if avail.is_empty() {
            break;
        }
        // any sender index, not only first/last
        let mut op = *rng.pick(&avail);
        op = match op {
            Op::Send(_) => Op::Send(rng.usize(m.senders)),
            Op::SinkSend(_) => Op::SinkSend(rng.usize(m.senders)),
            Op::DropS(_) => Op::DropS(rng.usize(m.senders)),
            Op::Close(_) => Op::Close(rng.usize(m.senders)),
            Op::Clone(_) => Op::Clone(rng.usize(m.senders)),
            o => o,
        };
        m.step(op);
        ops.push(op);
    }
    ops
}

pub fn parse_ops(s: &str) -> Vec<Op> {
    s.split(',')
        .filter(|x| !x.is_empty())
        .map(|x| Op::parse(x).unwrap_or_else(|| panic!("bad op {x}")))
        .collect()
}

pub fn run(args: &Args, rep: &mut Report) {
    let mut seen = Seen::default();

    if let Some(p) = &args.replay {
        let v: Value = serde_json::from_str(&std::fs::read_to_string(p).expect("replay file")).unwrap();
        let ops = parse_ops(v["ops"].as_str().expect("ops"));
        report_case(rep, &ops, &mut seen);
        rep.rule = "replay of one recorded operation sequence".into();
        return;
    }

    // (1) exhaustive enumeration
    let depth = match args.tier.as_str() {
        "thorough" => 8,
        "miri" => 4,
        _ => 6,
    } as usize;
    let depth = args.extra_u64("depth", depth as u64) as usize;
    let mut leaf_no = 0u64;
    enumerate(&Model::new(), &mut Vec::new(), depth, 3, &mut leaf_no, args, rep, &mut seen);
    rep.add("exhaustive_sequences_total_all_shards", leaf_no);
    rep.max("max_exhaustive_depth", depth as u64);

    // (2) random long sequences with every variant (Sink path, recv(), any sender index)
    let n_random = match args.tier.as_str() {
        "thorough" => 200_000,
        "miri" => 150,
        _ => 20_000,
    };
    let n_random = args.extra_u64("random", n_random);
    let mut rng = Rng::new(args.seed ^ 0xC16).fork(args.shard);
    for i in 0..n_random {
        if !args.mine(i) {
            continue;
        }
        let len = if args.slow() { 5 + rng.usize(40) } else { 5 + rng.usize(196) };
        let ops = random_case(&mut rng, len);
        report_case(rep, &ops, &mut seen);
        if nontrivial(&ops) {
            rep.nontrivial(fnv_str(&seq_code(&ops)));
        }
        if i < 2 {
            rep.sample(|| json!({"ops": seq_code(&ops), "kind": "random"}));
        }
    }

    rep.exhaustive = true;
    rep.rule = format!(
        "every operation sequence of length <= {depth} over {{send, clone, drop sender (first/last), close, poll, receiver.sender(), drop receiver}} \
         with <= 3 live senders, enumerated exhaustively from the reference model's enabled-operation set (leaves only; prefixes are checked on the way), \
         plus seeded random sequences of length 5..200 that also use Sink::start_send, recv().await and arbitrary sender indices; \
         a case is non-trivial if it contains a receive attempt and at least one send/close/sender-drop; \
         exhaustive cases are distinct by construction, random ones are de-duplicated by hash of the sequence"
    );
    rep.add("obs_pending_polls", seen.pendings);
    rep.add("obs_wakes_by_send", seen.wakes_by_send);
    rep.add("obs_wakes_by_last_sender_drop", seen.wakes_by_last_drop);
    rep.add("obs_wakes_by_close", seen.wakes_by_close);
    rep.add("obs_none_after_close", seen.none_after_close);
    rep.add("obs_none_after_senders_gone", seen.none_after_senders_gone);
    rep.add("obs_send_rejected", seen.send_rejected);
    rep.add("obs_messages_received", seen.received);
    rep.add("obs_drained_after_closure", seen.drained_after_close);
    rep.add("obs_extra_wakes_info", seen.spurious_wakes);
}
