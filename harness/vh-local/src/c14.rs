//! C14 — Framed writes are lossless, ordered and bounded, and close flushes.
//!
//! Real `actix_codec::Framed` as a `Sink` over a scripted `AsyncWrite`; a shadow
//! model (concatenated encodings of accepted items) is compared with what the
//! transport received after every call.

use std::{io, pin::Pin, task::Poll};

use actix_codec::{BytesCodec, Decoder, Encoder, Framed, LinesCodec};
use bytes::{Bytes, BytesMut};
use futures_sink::Sink;
use vh_core::{
    catch,
    exec::{is_waker_of, new_waker, reset_wakers},
    fnv_str, json, Args, Report, Rng, Value,
};

use crate::mockio::{CtlStep, MockIo, WriteStep};

const HW: usize = 8 * 1024;
const INJECTED: io::ErrorKind = io::ErrorKind::BrokenPipe;

#[derive(Clone, Copy, Debug, PartialEq, Eq)]
pub enum Op {
    Ready,
    /// start_send of an item with this payload size
    Send(usize),
    Flush,
    Close,
}

fn op_code(o: &Op) -> String {
    match o {
        Op::Ready => "R".into(),
        Op::Send(n) => format!("S{n}"),
        Op::Flush => "F".into(),
        Op::Close => "C".into(),
    }
}

fn ops_code(ops: &[Op]) -> String {
    ops.iter().map(op_code).collect::<Vec<_>>().join(",")
}

fn parse_ops(s: &str) -> Vec<Op> {
    s.split(',')
        .filter(|x| !x.is_empty())
        .map(|x| match &x[..1] {
            "R" => Op::Ready,
            "F" => Op::Flush,
            "C" => Op::Close,
            "S" => Op::Send(x[1..].parse().expect("size")),
            _ => panic!("op {x}"),
        })
        .collect()
}

fn w_code(s: &[WriteStep]) -> String {
    s.iter()
        .map(|x| match x {
            WriteStep::Accept(k) if *k == usize::MAX => "a*".into(),
            WriteStep::Accept(k) => format!("a{k}"),
            WriteStep::AllBut(k) => format!("b{k}"),
            WriteStep::Pending => "p".into(),
            WriteStep::Zero => "z".into(),
            WriteStep::Err(_) => "e".into(),
        })
        .collect::<Vec<_>>()
        .join(",")
}

fn parse_w(s: &str) -> Vec<WriteStep> {
    s.split(',')
        .filter(|x| !x.is_empty())
        .map(|x| match x {
            "p" => WriteStep::Pending,
            "z" => WriteStep::Zero,
            "e" => WriteStep::Err(INJECTED),
            "a*" => WriteStep::Accept(usize::MAX),
            b if b.starts_with('b') => WriteStep::AllBut(b[1..].parse().expect("n")),
            a => WriteStep::Accept(a[1..].parse().expect("n")),
        })
        .collect()
}

fn c_code(s: &[CtlStep]) -> String {
    s.iter()
        .map(|x| match x {
            CtlStep::Ok => "o",
            CtlStep::Pending => "p",
            CtlStep::Err(_) => "e",
        })
        .collect::<Vec<_>>()
        .join(",")
}

fn parse_c(s: &str) -> Vec<CtlStep> {
    s.split(',')
        .filter(|x| !x.is_empty())
        .map(|x| match x {
            "o" => CtlStep::Ok,
            "p" => CtlStep::Pending,
            _ => CtlStep::Err(INJECTED),
        })
        .collect()
}

#[derive(Clone, Debug)]
pub struct Case {
    pub lines: bool,
    pub ops: Vec<Op>,
    pub wscript: Vec<WriteStep>,
    pub fscript: Vec<CtlStep>,
    pub sscript: Vec<CtlStep>,
    /// explicit conversion points (before op #i, kind 1 = into_parts/from_parts, 2 = into_map_io, 3 = into_map_codec);
    /// empty: one point and kind derived from a hash of the case (the enumerated families)
    pub conv: Vec<(usize, u8)>,
}

fn conv_code(c: &[(usize, u8)]) -> String {
    c.iter().map(|(i, k)| format!("{i}:{k}")).collect::<Vec<_>>().join(",")
}

fn parse_conv(s: &str) -> Vec<(usize, u8)> {
    s.split(',').filter(|x| !x.is_empty()).map(|x| { let (a, b) = x.split_once(':').expect("i:k"); (a.parse().unwrap(), b.parse().unwrap()) }).collect()
}

impl Case {
    fn to_json(&self) -> Value {
        json!({"prop": "C14", "codec": if self.lines { "lines" } else { "bytes" }, "ops": ops_code(&self.ops),
               "write_script": w_code(&self.wscript), "flush_script": c_code(&self.fscript), "shutdown_script": c_code(&self.sscript), "conversions": conv_code(&self.conv)})
    }
    fn code(&self) -> String {
        format!(
            "codec={} ops={} write={} flush={} shutdown={} conv={}",
            if self.lines { "lines" } else { "bytes" },
            ops_code(&self.ops),
            w_code(&self.wscript),
            c_code(&self.fscript),
            c_code(&self.sscript),
            conv_code(&self.conv)
        )
    }
}

struct Fail {
    sig: String,
    desc: String,
}

#[derive(Default)]
struct Seen {
    items_sent: u64,
    flush_ok: u64,
    close_ok: u64,
    close_ok_with_data: u64,
    pendings: u64,
    ready_backpressure: u64,
    ready_below_mark: u64,
    write_zero_errors: u64,
    transport_errors: u64,
    short_writes: u64,
    bytes_checked: u64,
    contract_skips: u64,
    conversions: u64,
    trickle_cases: u64,
    read_half_at_eof: u64,
    conversions_with_buffered_data: u64,
    sends_after_pending_close: u64,
    short_tail_cases: u64,
}

fn payload(n: usize, tag: u8, lines: bool) -> Vec<u8> {
    (0..n)
        .map(|k| {
            let b = (k as u8).wrapping_mul(31).wrapping_add(tag);
            if lines {
                b'a' + (b % 26)
            } else {
                b
            }
        })
        .collect()
}

fn run_generic<C, I>(case: &Case, codec: C, mut refcodec: C, mk: impl Fn(Vec<u8>) -> I, seen: &mut Seen) -> Result<(), Fail>
where
    C: Decoder + Encoder<I, Error = io::Error>,
{
    reset_wakers();
    let mut io = MockIo::writer(case.wscript.clone());
    io.flush_script = case.fscript.clone().into();
    io.shutdown_script = case.sscript.clone().into();
    let mut framed = Framed::new(io, codec);
    // before one op (chosen from the case) the Framed is rebuilt around the same transport, codec and buffers through
    // one of its conversion methods; whatever is buffered must survive that
    let h = vh_core::fnv_str(&format!("{:?}{:?}", case.ops, case.wscript));
    let xform_kind = (h >> 5) % 4;
    let xform_at = ((h >> 13) % (case.ops.len() as u64 + 1)) as usize;
    // in a third of the cases the read half has already seen the end of the stream (a peer that half-closed) before
    // anything is written: the sink's obligations do not depend on that
    if (h >> 21) % 3 == 0 {
        for k in 0..4 {
            let (w, _) = new_waker(90_000 + k);
            let mut cx = std::task::Context::from_waker(&w);
            if let Poll::Ready(None) = futures_core::Stream::poll_next(Pin::new(&mut framed), &mut cx) {
                seen.read_half_at_eof += 1;
                break;
            }
        }
    }
    let mut expected: Vec<u8> = Vec::new();
    let mut may_send = false;
    let mut tag = 0u8;
    let mut closed = false;
    let mut close_pending_seen = false;

    for (at, op) in case.ops.iter().enumerate() {
        let (w, rec) = new_waker(at as u64);
        let mut cx = std::task::Context::from_waker(&w);
        let explicit = case.conv.iter().find(|(i, _)| *i == at).map(|(_, k)| *k as u64);
        let xform_now = if case.conv.is_empty() { (at == xform_at && xform_kind != 0).then_some(xform_kind) } else { explicit };
        if let Some(xform_kind) = xform_now {
            seen.conversions += 1;
            if !framed.is_write_buf_empty() {
                seen.conversions_with_buffered_data += 1;
            }
            framed = match xform_kind {
                1 => Framed::from_parts(framed.into_parts()),
                2 => framed.into_map_io(|io| io),
                _ => framed.into_map_codec(|c| c),
            };
        }
        framed.io_mut().begin_call();
        let received_before = framed.io_ref().written.len();
        let zero_before = framed.io_ref().zero_writes;
        let err_before = framed.io_ref().write_errors + framed.io_ref().ctl_errors;
        let buffered_before = expected.len() - received_before;
        let fail = |sig: &str, desc: String| Fail {
            sig: sig.to_string(),
            desc: format!("{desc} (op #{at} {})", op_code(op)),
        };
        if closed {
            break;
        }

        let res: Option<Poll<Result<(), io::Error>>> = match op {
            Op::Send(n) => {
                if !may_send {
                    // Sink contract: start_send only after poll_ready returned Ready(Ok)
                    seen.contract_skips += 1;
                    continue;
                }
                may_send = false;
                tag = tag.wrapping_add(1);
                let bytes = payload(*n, tag, case.lines);
                let mut enc = BytesMut::new();
                refcodec.encode(mk(bytes.clone()), &mut enc).map_err(|e| fail("C14:harness:reference-encode", e.to_string()))?;
                let r = Sink::<I>::start_send(Pin::new(&mut framed), mk(bytes));
                if let Err(e) = r {
                    return Err(fail("C14:start-send-error", format!("start_send failed: {e}")));
                }
                expected.extend_from_slice(&enc);
                seen.items_sent += 1;
                if close_pending_seen {
                    seen.sends_after_pending_close += 1;
                }
                None
            }
            Op::Ready => Some(Sink::<I>::poll_ready(Pin::new(&mut framed), &mut cx)),
            Op::Flush => Some(Sink::<I>::poll_flush(Pin::new(&mut framed), &mut cx)),
            Op::Close => Some(Sink::<I>::poll_close(Pin::new(&mut framed), &mut cx)),
        };

        let io = framed.io_ref();
        let received = &io.written;
        seen.short_writes = seen.short_writes.max(io.short_writes);
        // (1) lossless + ordered: what the transport has is a prefix of the accepted encodings
        if received.len() > expected.len() || received[..] != expected[..received.len()] {
            let k = received.iter().zip(&expected).take_while(|(a, b)| a == b).count();
            return Err(fail(
                "C14:bytes-not-prefix-of-accepted-items",
                format!("transport received {} bytes, accepted encodings are {} bytes, first difference at byte {k}", received.len(), expected.len()),
            ));
        }
        seen.bytes_checked += received.len() as u64;
        let buffered_after = expected.len() - received.len();

        let Some(res) = res else { continue };
        // poll_ready below the mark must not exert back-pressure
        if *op == Op::Ready && buffered_before < HW && res.is_pending() {
            return Err(fail("C14:ready-pending-below-mark", format!("poll_ready returned Pending with only {buffered_before} bytes buffered")));
        }
        match res {
            Poll::Pending => {
                seen.pendings += 1;
                if !io.pending_in_call {
                    return Err(fail("C14:pending-without-transport-pending", "Pending returned although no transport call returned Pending".into()));
                }
                match &io.write_waker {
                    Some(ww) if is_waker_of(ww, &rec) => {}
                    _ => return Err(fail("C14:pending-with-stale-waker", "transport holds a waker that is not the current one".into())),
                }
                if *op == Op::Ready {
                    may_send = false;
                }
                if *op == Op::Close {
                    close_pending_seen = true;
                }
            }
            Poll::Ready(Err(e)) => {
                let zero = io.zero_writes > zero_before;
                let terr = io.write_errors + io.ctl_errors > err_before || e.kind() == INJECTED;
                if zero {
                    if e.kind() != io::ErrorKind::WriteZero {
                        return Err(fail("C14:zero-write-wrong-error", format!("zero-length write reported as {:?}", e.kind())));
                    }
                    seen.write_zero_errors += 1;
                } else if terr {
                    if e.kind() != INJECTED {
                        return Err(fail("C14:transport-error-kind-changed", format!("transport error surfaced as {:?}", e.kind())));
                    }
                    seen.transport_errors += 1;
                } else {
                    return Err(fail("C14:spurious-error", format!("error {:?} without any transport failure", e.kind())));
                }
                return Ok(()); // sink is dead after an error
            }
            Poll::Ready(Ok(())) => {
                // a transport failure in this call must not be swallowed
                if io.zero_writes > zero_before {
                    return Err(fail("C14:zero-write-not-reported", "a zero-length write happened but the call returned Ok".into()));
                }
                if io.write_errors + io.ctl_errors > err_before {
                    return Err(fail("C14:transport-error-swallowed", "a transport write error happened but the call returned Ok".into()));
                }
                match op {
                    Op::Ready => {
                        if buffered_after >= HW {
                            return Err(fail(
                                "C14:ready-above-high-water-mark",
                                format!("poll_ready returned Ready with {buffered_after} bytes buffered (>= {HW})"),
                            ));
                        }
                        if buffered_before >= HW {
                            seen.ready_backpressure += 1;
                        } else {
                            seen.ready_below_mark += 1;
                        }
                        may_send = true;
                    }
                    Op::Flush | Op::Close => {
                        if buffered_after != 0 || !framed.is_write_buf_empty() {
                            return Err(fail(
                                if *op == Op::Flush { "C14:flush-ok-with-buffered-data" } else { "C14:close-ok-with-buffered-data" },
                                format!("{} returned Ready(Ok) with {buffered_after} accepted bytes not yet written (write buffer empty: {})",
                                    if *op == Op::Flush { "poll_flush" } else { "poll_close" }, framed.is_write_buf_empty()),
                            ));
                        }
                        if *op == Op::Flush {
                            if io.flushed_at != Some(received.len()) {
                                return Err(fail("C14:flush-ok-without-transport-flush", "poll_flush returned Ok but the transport was not flushed after the last byte".into()));
                            }
                            seen.flush_ok += 1;
                        } else {
                            if io.shutdown_at != Some(received.len()) {
                                return Err(fail("C14:close-ok-without-shutdown", "poll_close returned Ok but the transport was not shut down after the last byte".into()));
                            }
                            seen.close_ok += 1;
                            if buffered_before > 0 {
                                seen.close_ok_with_data += 1;
                            }
                            closed = true;
                        }
                    }
                    Op::Send(_) => unreachable!(),
                }
            }
        }
    }
    Ok(())
}

fn run_case(case: &Case, seen: &mut Seen) -> Result<(), Fail> {
    if case.lines {
        run_generic(case, LinesCodec::default(), LinesCodec::default(), |b| String::from_utf8(b).unwrap(), seen)
    } else {
        run_generic(case, BytesCodec, BytesCodec, Bytes::from, seen)
    }
}

fn report(rep: &mut Report, case: &Case, seen: &mut Seen) {
    rep.evaluations += 1;
    match catch(|| run_case(case, seen)) {
        Ok(Ok(())) => {}
        Ok(Err(f)) => rep.violation(f.sig, format!("{} [{}]", f.desc, case.code()), case.to_json()),
        Err(p) => rep.violation("C14:panic", format!("panic: {p} [{}]", case.code()), case.to_json()),
    }
}

/// All op sequences of exactly `len` over the given alphabet that respect the Sink contract statically
/// (a Send must be preceded by a Ready with no Send in between).
fn enum_ops(len: usize, sizes: &[usize], out: &mut Vec<Vec<Op>>) {
    fn rec(cur: &mut Vec<Op>, may: bool, len: usize, sizes: &[usize], out: &mut Vec<Vec<Op>>) {
        if cur.len() == len {
            out.push(cur.clone());
            return;
        }
        if cur.last() == Some(&Op::Close) {
            out.push(cur.clone());
            return;
        }
        for o in [Op::Ready, Op::Flush, Op::Close] {
            cur.push(o);
            rec(cur, o == Op::Ready, len, sizes, out);
            cur.pop();
        }
        if may {
            for &s in sizes {
                cur.push(Op::Send(s));
                rec(cur, false, len, sizes, out);
                cur.pop();
            }
        }
    }
    rec(&mut Vec::new(), false, len, sizes, out);
}

fn enum_wscripts(maxlen: usize) -> Vec<Vec<WriteStep>> {
    let alpha = [WriteStep::Accept(usize::MAX), WriteStep::Accept(1), WriteStep::Accept(1024), WriteStep::Pending, WriteStep::Zero, WriteStep::Err(INJECTED)];
    let mut out = vec![vec![]];
    let mut frontier = vec![vec![]];
    for _ in 0..maxlen {
        let mut next = Vec::new();
        for f in &frontier {
            for a in alpha {
                let mut g: Vec<WriteStep> = f.clone();
                g.push(a);
                next.push(g);
            }
        }
        out.extend(next.iter().cloned());
        frontier = next;
    }
    out
}

pub fn run(args: &Args, rep: &mut Report) {
    let mut seen = Seen::default();

    if let Some(p) = &args.replay {
        let v: Value = serde_json::from_str(&std::fs::read_to_string(p).expect("replay file")).unwrap();
        let case = Case {
            lines: v["codec"] == "lines",
            ops: parse_ops(v["ops"].as_str().unwrap()),
            wscript: parse_w(v["write_script"].as_str().unwrap()),
            fscript: parse_c(v["flush_script"].as_str().unwrap_or("")),
            sscript: parse_c(v["shutdown_script"].as_str().unwrap_or("")),
            conv: parse_conv(v["conversions"].as_str().unwrap_or("")),
        };
        report(rep, &case, &mut seen);
        rep.rule = "replay of one recorded op sequence + transport script".into();
        return;
    }

    let (oplen, wlen, n_random) = match args.tier.as_str() {
        "thorough" => (7usize, 4usize, 40_000u64),
        "miri" => (3, 1, 20),
        _ => (6, 3, 4_000),
    };
    let oplen = args.extra_u64("oplen", oplen as u64) as usize;
    let wlen = args.extra_u64("wlen", wlen as u64) as usize;
    let n_random = args.extra_u64("random", n_random);

    // exhaustive: op sequences x write scripts x flush/shutdown behaviours
    let sizes = [3usize, 9000];
    let mut opseqs = Vec::new();
    enum_ops(oplen, &sizes, &mut opseqs);
    let wscripts = enum_wscripts(wlen);
    let ctl_variants: Vec<(Vec<CtlStep>, Vec<CtlStep>)> = vec![
        (vec![], vec![]),
        (vec![CtlStep::Pending], vec![]),
        (vec![], vec![CtlStep::Pending]),
        (vec![CtlStep::Err(INJECTED)], vec![]),
    ];
    let mut idx = 0u64;
    for ops in &opseqs {
        for ws in &wscripts {
            for (fs, ss) in &ctl_variants {
                let my = args.mine(idx);
                idx += 1;
                if !my {
                    continue;
                }
                let case = Case {
                    lines: idx % 2 == 0,
                    ops: ops.clone(),
                    wscript: ws.clone(),
                    fscript: fs.clone(),
                    sscript: ss.clone(),
                    conv: vec![],
                };
                report(rep, &case, &mut seen);
                if ops.iter().any(|o| matches!(o, Op::Send(_))) {
                    rep.distinct_counted += 1;
                }
                rep.sample_spread(|| case.to_json());
            }
        }
    }
    rep.add("exhaustive_cases_all_shards", idx);
    rep.add("exhaustive_op_sequences_all_shards", opseqs.len() as u64);
    rep.max("max_op_sequence_len", oplen as u64);
    rep.max("max_write_script_len", wlen as u64);

    // targeted family 1: a large item leaves a short tail in the write buffer (the transport took all but k bytes, then
    // Pending), the Framed is rebuilt by each conversion while the tail is buffered, then flushed and closed
    // targeted family 2: poll_close parks on the transport's shutdown (Pending, 1..2 times), another item is accepted,
    // and poll_close is polled again: it may report success only with that item written too
    let mut fam: Vec<Case> = Vec::new();
    for lines in [false, true] {
        for size in [2000usize, 9000, 20000] {
            for tail in [1usize, 300, 1000, 1500] {
                for kind in 1..=3u8 {
                    for at in [2usize, 3] {
                        fam.push(Case {
                            lines,
                            ops: vec![Op::Ready, Op::Send(size), Op::Flush, Op::Flush, Op::Ready, Op::Send(3), Op::Flush, Op::Close, Op::Close],
                            wscript: vec![WriteStep::AllBut(tail), WriteStep::Pending],
                            fscript: vec![],
                            sscript: vec![],
                            conv: vec![(at, kind)],
                        });
                        // the same with the buffer filled by several smaller items (no reallocation on the way)
                        let per = size / 8;
                        let mut ops = Vec::new();
                        for _ in 0..8 {
                            ops.extend([Op::Ready, Op::Send(per)]);
                        }
                        let base = ops.len();
                        ops.extend([Op::Flush, Op::Flush, Op::Ready, Op::Send(3), Op::Flush, Op::Close, Op::Close]);
                        fam.push(Case {
                            lines,
                            ops,
                            wscript: vec![WriteStep::AllBut(tail), WriteStep::Pending],
                            fscript: vec![],
                            sscript: vec![],
                            conv: vec![(base + at - 2, kind)],
                        });
                    }
                }
            }
        }
        for first in [0usize, 3, 9000] {
            for second in [3usize, 9000] {
                for npend in 1..=2usize {
                    for kind in 0..=3u8 {
                        let mut ops = vec![Op::Ready];
                        if first > 0 {
                            ops.push(Op::Send(first));
                        }
                        for _ in 0..npend {
                            ops.push(Op::Close);
                        }
                        let conv_at = ops.len();
                        ops.extend([Op::Ready, Op::Send(second), Op::Close, Op::Close]);
                        fam.push(Case {
                            lines,
                            ops,
                            wscript: vec![],
                            fscript: vec![],
                            sscript: vec![CtlStep::Pending; npend],
                            conv: if kind == 0 { vec![(usize::MAX, 1)] } else { vec![(conv_at, kind)] },
                        });
                    }
                }
            }
        }
    }
    if args.tier == "miri" {
        // the interpreter is ~10^4 times slower: a thin slice of the two families
        let mut k = 0usize;
        fam.retain(|_| {
            k += 1;
            k % 29 == 0
        });
    }
    for (i, case) in fam.iter().enumerate() {
        if !args.mine(i as u64) {
            continue;
        }
        if matches!(case.wscript.first(), Some(WriteStep::AllBut(_))) {
            seen.short_tail_cases += 1;
        }
        report(rep, case, &mut seen);
        rep.distinct_counted += 1;
    }
    rep.add("targeted_family_cases_all_shards", fam.len() as u64);

    // random: long op sequences, sizes straddling the marks, long transport scripts
    let mut rng = Rng::new(args.seed ^ 0xC14).fork(args.shard);
    let item_sizes = [0usize, 1, 1023, 1024, 1025, 8191, 8192, 8193, 20000];
    for i in 0..n_random {
        if !args.mine(i) {
            continue;
        }
        let n = if args.slow() { 4 + rng.usize(12) } else { 4 + rng.usize(197) };
        let mut ops = Vec::new();
        let mut may = false;
        // one case in four polls close in mid-sequence too (it may park on the transport's shutdown and be resumed later)
        let mid_close = rng.chance(1, 4);
        for _ in 0..n {
            let r = rng.usize(10);
            let op = if may && r < 6 {
                let s = if args.slow() { *rng.pick(&[0usize, 1, 1023, 1025]) } else if rng.chance(1, 4) { rng.usize(12000) } else { *rng.pick(&item_sizes) };
                may = false;
                Op::Send(s)
            } else if r < 8 {
                may = true;
                Op::Ready
            } else if r == 9 && mid_close && rng.chance(1, 4) {
                may = false;
                Op::Close
            } else {
                Op::Flush
            };
            ops.push(op);
        }
        if rng.chance(2, 3) {
            ops.push(Op::Close);
            ops.push(Op::Close);
            ops.push(Op::Close);
        }
        let wl = rng.usize(40);
        // one case in eight: a transport that trickles (33..200 consecutive small accepted writes, no Pending between them)
        let trickle = rng.chance(1, 8);
        if trickle {
            seen.trickle_cases += 1;
        }
        let wscript: Vec<WriteStep> = if trickle {
            let n = 33 + rng.usize(170);
            let step = 1 + rng.usize(40);
            (0..n).map(|_| WriteStep::Accept(step)).collect()
        } else {
            (0..wl)
            .map(|_| match rng.usize(20) {
                0 if rng.chance(1, 4) => WriteStep::Zero,
                1 if rng.chance(1, 4) => WriteStep::Err(INJECTED),
                0..=4 => WriteStep::Pending,
                5 | 6 => WriteStep::AllBut(1 + rng.usize(1500)),
                7..=9 => WriteStep::Accept(1 + rng.usize(2000)),
                10..=12 => WriteStep::Accept(*rng.pick(&[1usize, 1023, 1024, 1025, 8191, 8192, 8193])),
                _ => WriteStep::Accept(usize::MAX),
            })
            .collect()
        };
        let fscript: Vec<CtlStep> = (0..rng.usize(4)).map(|_| if rng.chance(1, 2) { CtlStep::Pending } else { CtlStep::Ok }).collect();
        let sscript: Vec<CtlStep> = (0..rng.usize(if mid_close { 6 } else { 3 })).map(|_| if rng.chance(1, 2) { CtlStep::Pending } else { CtlStep::Ok }).collect();
        // half of the cases: conversions before about one op in six (any kind); the others keep the single hash-chosen one
        let mut conv: Vec<(usize, u8)> = Vec::new();
        if rng.chance(1, 2) {
            for i in 0..ops.len() {
                if rng.chance(1, 6) {
                    conv.push((i, 1 + rng.usize(3) as u8));
                }
            }
        }
        let case = Case {
            lines: rng.chance(1, 2),
            ops,
            wscript,
            fscript,
            sscript,
            conv,
        };
        report(rep, &case, &mut seen);
        rep.nontrivial(fnv_str(&case.code()));
        if i < 2 {
            rep.sample(|| json!({"kind": "random", "case": case.code()}));
        }
    }

    rep.add("obs_conversions_with_buffered_data", seen.conversions_with_buffered_data);
    rep.add("obs_sends_after_pending_close", seen.sends_after_pending_close);
    rep.add("obs_short_tail_cases", seen.short_tail_cases);
    rep.exhaustive = true;
    rep.rule = format!(
        "every op sequence of length <= {oplen} over {{poll_ready, start_send(3 bytes), start_send(9000 bytes), poll_flush, poll_close}} that respects the Sink contract (start_send only after a Ready poll_ready) \
         x every transport write script of length <= {wlen} over {{accept all, accept 1, accept 1024, Pending, zero-length, error}} (then accept all) x 4 flush/shutdown behaviours (ok, flush Pending once, shutdown Pending once, flush error), \
         alternating BytesCodec / LinesCodec encoders; after every call: received bytes are a prefix of the accepted encodings, Ok from flush/close implies nothing buffered and transport flushed/shut down after the last byte, \
         poll_ready Ready implies < 8192 buffered and is never Pending below the mark, zero-length write => WriteZero, transport errors keep their kind, Pending only with the transport's Pending and the current waker; \
         plus two targeted families (a large item of which the transport takes all but 1..1500 bytes, then each Framed conversion with that tail buffered, then flush/close; poll_close parked on a Pending shutdown, another item accepted, poll_close polled again, with and without a conversion in between) \
         plus random sequences up to 200 ops (a quarter with poll_close in mid-sequence, half with conversions before one op in six, transport steps that take all but a short tail) with item sizes {{0,1,1023,1024,1025,8191,8192,8193,20000,random}} and transport scripts up to 40 steps. \
         Non-trivial: contains at least one accepted item. Enumerated cases are distinct by construction; random ones de-duplicated by hash."
    );
    rep.add("obs_items_accepted", seen.items_sent);
    rep.add("obs_flush_ok", seen.flush_ok);
    rep.add("obs_close_ok", seen.close_ok);
    rep.add("obs_close_ok_with_pending_data", seen.close_ok_with_data);
    rep.add("obs_pending_results", seen.pendings);
    rep.add("obs_ready_after_backpressure", seen.ready_backpressure);
    rep.add("obs_ready_below_mark", seen.ready_below_mark);
    rep.add("obs_write_zero_errors", seen.write_zero_errors);
    rep.add("obs_transport_errors", seen.transport_errors);
    rep.add("obs_mid_sequence_conversions", seen.conversions);
    rep.add("obs_trickling_transport_cases", seen.trickle_cases);
    rep.add("obs_cases_with_read_half_at_eof", seen.read_half_at_eof);
    rep.add("obs_bytes_prefix_checked", seen.bytes_checked);
    rep.add("obs_contract_skipped_sends", seen.contract_skips);
}
