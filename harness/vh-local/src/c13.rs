//! C13 — Framed decoding does not depend on how the bytes arrive.
//!
//! Real `actix_codec::Framed` over a scripted `AsyncRead`; the item sequence
//! from `poll_next` is compared with the reference decode of the whole stream.

use std::{io, pin::Pin, task::Poll};

use actix_codec::{BytesCodec, Decoder, Framed, LinesCodec};
use bytes::{Buf, BytesMut};
use futures_core::Stream;
use vh_core::{
    catch,
    exec::{is_waker_of, new_waker, reset_wakers},
    fnv, json, Args, Report, Rng, Value,
};

use crate::mockio::{MockIo, ReadStep};

/// Length-prefixed test codec: `width`-byte big-endian length, then payload.
#[derive(Clone, Copy, Debug)]
pub struct LpCodec {
    pub width: usize,
}

impl Decoder for LpCodec {
    type Item = Vec<u8>;
    type Error = io::Error;

    fn decode(&mut self, src: &mut BytesMut) -> Result<Option<Vec<u8>>, io::Error> {
        if src.len() < self.width {
            return Ok(None);
        }
        let mut n = 0usize;
        for i in 0..self.width {
            n = (n << 8) | src[i] as usize;
        }
        if src.len() < self.width + n {
            return Ok(None);
        }
        src.advance(self.width);
        Ok(Some(src.split_to(n).to_vec()))
    }
    // decode_eof: tokio-util default ("bytes remaining on stream" error if a partial frame is left)
}

/// Stateful codec: one length byte (consumed as soon as it arrives, remembered in the codec), then the payload; at the
/// end of the stream it emits one terminator frame, or a truncation error if a record is incomplete. Its end-of-stream
/// answer depends on state kept outside the buffer, so `decode_eof` must be asked even when the buffer is empty.
#[derive(Clone, Debug, Default)]
pub struct StCodec {
    need: Option<usize>,
    ended: bool,
}

impl Decoder for StCodec {
    type Item = Vec<u8>;
    type Error = io::Error;

    fn decode(&mut self, src: &mut BytesMut) -> Result<Option<Vec<u8>>, io::Error> {
        if self.need.is_none() {
            if src.is_empty() {
                return Ok(None);
            }
            self.need = Some(src[0] as usize);
            src.advance(1);
        }
        let n = self.need.unwrap();
        if src.len() < n {
            return Ok(None);
        }
        self.need = None;
        Ok(Some(src.split_to(n).to_vec()))
    }

    fn decode_eof(&mut self, src: &mut BytesMut) -> Result<Option<Vec<u8>>, io::Error> {
        if let Some(x) = self.decode(src)? {
            return Ok(Some(x));
        }
        if self.need.is_some() || !src.is_empty() {
            src.clear();
            self.need = None;
            self.ended = true;
            return Err(io::Error::new(io::ErrorKind::UnexpectedEof, "record truncated"));
        }
        if !self.ended {
            self.ended = true;
            return Ok(Some(b"<END>".to_vec()));
        }
        Ok(None)
    }
}

#[derive(Clone, Copy, Debug, PartialEq, Eq)]
pub enum Which {
    Lp1,
    Lp2,
    Lines,
    Bytes,
    Stateful,
}

impl Which {
    fn name(&self) -> &'static str {
        match self {
            Which::Lp1 => "lp1",
            Which::Lp2 => "lp2",
            Which::Lines => "lines",
            Which::Bytes => "bytes",
            Which::Stateful => "stateful",
        }
    }
    fn parse(s: &str) -> Which {
        match s {
            "lp1" => Which::Lp1,
            "lp2" => Which::Lp2,
            "lines" => Which::Lines,
            "bytes" => Which::Bytes,
            "stateful" => Which::Stateful,
            _ => panic!("codec {s}"),
        }
    }
    fn alphabet(&self) -> &'static [u8] {
        match self {
            Which::Lp1 | Which::Lp2 | Which::Stateful => &[0, 1, 2, 3, b'a'],
            _ => &[b'a', b'\n', b'\r', 0x02, 0xFF],
        }
    }
}

type Item = Result<Vec<u8>, io::ErrorKind>;

/// Reference: the whole stream in one buffer; `decode` until None, then `decode_eof` until None.
/// Returns (items, stopped_on_end_of_stream_error).
fn reference_with<C: Decoder<Error = io::Error>>(mut codec: C, data: &[u8], f: impl Fn(C::Item) -> Vec<u8>) -> (Vec<Item>, bool) {
    let mut buf = BytesMut::from(data);
    let mut out = Vec::new();
    loop {
        match codec.decode(&mut buf) {
            Ok(Some(x)) => out.push(Ok(f(x))),
            Ok(None) => break,
            Err(e) => out.push(Err(e.kind())),
        }
        if out.len() > data.len() + 8 {
            break;
        }
    }
    loop {
        match codec.decode_eof(&mut buf) {
            Ok(Some(x)) => out.push(Ok(f(x))),
            Ok(None) => return (out, false),
            Err(e) => {
                out.push(Err(e.kind()));
                return (out, true);
            }
        }
        if out.len() > data.len() + 16 {
            return (out, true);
        }
    }
}

/// Number of items `decode` (without end-of-stream knowledge) yields from a prefix of the stream.
fn complete_frames(which: Which, prefix: &[u8]) -> usize {
    fn count<C: Decoder<Error = io::Error>>(mut c: C, prefix: &[u8]) -> usize {
        let mut buf = BytesMut::from(prefix);
        let mut n = 0;
        loop {
            match c.decode(&mut buf) {
                Ok(Some(_)) | Err(_) => n += 1,
                Ok(None) => return n,
            }
            if n > prefix.len() + 8 {
                return n;
            }
        }
    }
    match which {
        Which::Lp1 => count(LpCodec { width: 1 }, prefix),
        Which::Lp2 => count(LpCodec { width: 2 }, prefix),
        Which::Lines => count(LinesCodec::default(), prefix),
        Which::Bytes => 0,
        Which::Stateful => count(StCodec::default(), prefix),
    }
}

fn reference(which: Which, data: &[u8]) -> (Vec<Item>, bool) {
    match which {
        Which::Lp1 => reference_with(LpCodec { width: 1 }, data, |v| v),
        Which::Lp2 => reference_with(LpCodec { width: 2 }, data, |v| v),
        Which::Lines => reference_with(LinesCodec::default(), data, |s| s.into_bytes()),
        Which::Bytes => reference_with(BytesCodec, data, |b| b.to_vec()),
        Which::Stateful => reference_with(StCodec::default(), data, |v| v),
    }
}

pub struct Fail {
    pub sig: String,
    pub desc: String,
}

#[derive(Default)]
pub struct Seen {
    pub frames: u64,
    pub pending_polls: u64,
    pub io_errors_surfaced: u64,
    pub decode_errors_surfaced: u64,
    pub eos_error_cases: u64,
    pub none_stable_checks: u64,
    pub big_frames: u64,
    pub polls: u64,
    pub conversions: u64,
    pub error_order_checks: u64,
    pub prefilled: u64,
}

/// How many leading bytes of the stream are handed over in the read buffer instead of being read (0 in two thirds of
/// the cases; otherwise anything from 1 to the whole stream).
fn prefill_len(data: &[u8], script: &[ReadStep]) -> usize {
    if data.is_empty() {
        return 0;
    }
    let h = vh_core::fnv(data).rotate_left(17) ^ (script.len() as u64).wrapping_mul(0xD6E8_FEB8_6659_FD93);
    if h % 3 != 0 {
        return 0;
    }
    1 + ((h >> 9) % data.len() as u64) as usize
}

fn poll_stream<S: Stream>(s: Pin<&mut S>, w: &std::task::Waker) -> Poll<Option<S::Item>> {
    let mut cx = std::task::Context::from_waker(w);
    s.poll_next(&mut cx)
}

const INJECTED: io::ErrorKind = io::ErrorKind::ConnectionReset;

/// Drive the real Framed to the end of the stream, collecting items.
fn drive<C>(codec: C, data: &[u8], script: &[ReadStep], pre: usize, want_len: usize, f: impl Fn(C::Item) -> Vec<u8>, seen: &mut Seen) -> Result<(Vec<Item>, bool), Fail>
where
    C: Decoder<Error = io::Error>,
{
    reset_wakers();
    // in a third of the cases the first bytes of the stream are already in the read buffer when the Framed is built
    // (FramedParts::with_read_buf + from_parts, the way a connection is handed over after a protocol switch); the
    // transport delivers the rest, possibly nothing at all
    let mut framed = if pre > 0 {
        seen.prefilled += 1;
        let io = MockIo::reader(data[pre..].to_vec(), script.to_vec());
        Framed::from_parts(actix_codec::FramedParts::with_read_buf(io, codec, BytesMut::from(&data[..pre])))
    } else {
        Framed::new(MockIo::reader(data.to_vec(), script.to_vec()), codec)
    };
    // at one poll index (derived from the case) the Framed is rebuilt around the same transport, codec and buffers
    // through one of its conversion methods: the stream must not notice
    let h = vh_core::fnv(data) ^ (script.len() as u64).wrapping_mul(0x9E37_79B9_7F4A_7C15) ^ script_code(script).len() as u64;
    let xform_kind = (h >> 3) % 4;
    let xform_at = (h >> 11) % (script.len() as u64 + 2);
    let mut items: Vec<Item> = Vec::new();
    let mut ended = false;
    let budget = (script.len() + data.len() + want_len) as u64 * 2 + 64;
    let mut polls = 0u64;
    while polls < budget {
        let (w, rec) = new_waker(polls);
        polls += 1;
        seen.polls += 1;
        if polls - 1 == xform_at && xform_kind != 0 {
            seen.conversions += 1;
            framed = match xform_kind {
                1 => framed.into_map_io(|io| io),
                2 => Framed::from_parts(framed.into_parts()),
                _ => framed.into_map_codec(|c| c),
            };
        }
        framed.io_mut().begin_call();
        let r = poll_stream(Pin::new(&mut framed), &w);
        match r {
            Poll::Pending => {
                seen.pending_polls += 1;
                let io = framed.io_ref();
                if !io.pending_in_call {
                    return Err(Fail {
                        sig: "C13:pending-without-transport-pending".into(),
                        desc: format!("poll_next returned Pending although the transport did not (poll #{polls})"),
                    });
                }
                match &io.read_waker {
                    Some(rw) if is_waker_of(rw, &rec) => {}
                    _ => {
                        return Err(Fail {
                            sig: "C13:pending-with-stale-waker".into(),
                            desc: "transport holds a waker that is not the one of the current poll".into(),
                        })
                    }
                }
                // the transport becomes readable again: a well-behaved executor re-polls
            }
            Poll::Ready(None) => {
                ended = true;
                break;
            }
            Poll::Ready(Some(it)) => {
                items.push(match it {
                    Ok(x) => Ok(f(x)),
                    Err(e) => Err(e.kind()),
                });
                if items.len() > want_len + 4 {
                    break;
                }
            }
        }
    }
    if ended {
        // None must be stable
        for k in 0..2 {
            let (w, _) = new_waker(10_000 + k);
            seen.none_stable_checks += 1;
            match poll_stream(Pin::new(&mut framed), &w) {
                Poll::Ready(None) => {}
                other => {
                    return Err(Fail {
                        sig: "C13:item-after-end".into(),
                        desc: format!("poll_next after None returned {:?}", other.map(|o| o.map(conv_dbg))),
                    })
                }
            }
        }
    }
    let io = framed.io_ref();
    if io.no_room_reads > 0 {
        return Err(Fail {
            sig: "C13:read-with-full-buffer".into(),
            desc: "Framed polled the transport with no room in its read buffer (a 0-byte read would be taken for EOF)".into(),
        });
    }
    Ok((items, ended))
}

fn conv_dbg<T>(r: Result<T, io::Error>) -> String {
    match r {
        Ok(_) => "Ok(frame)".into(),
        Err(e) => format!("Err({:?})", e.kind()),
    }
}

fn actual(which: Which, data: &[u8], script: &[ReadStep], pre: usize, want_len: usize, seen: &mut Seen) -> Result<(Vec<Item>, bool), Fail> {
    match which {
        Which::Lp1 => drive(LpCodec { width: 1 }, data, script, pre, want_len, |v| v, seen),
        Which::Lp2 => drive(LpCodec { width: 2 }, data, script, pre, want_len, |v| v, seen),
        Which::Lines => drive(LinesCodec::default(), data, script, pre, want_len, |s| s.into_bytes(), seen),
        Which::Bytes => drive(BytesCodec, data, script, pre, want_len, |b| b.to_vec(), seen),
        Which::Stateful => drive(StCodec::default(), data, script, pre, want_len, |v| v, seen),
    }
}

fn show(items: &[Item]) -> String {
    let v: Vec<String> = items
        .iter()
        .take(12)
        .map(|i| match i {
            Ok(b) if b.len() <= 12 => format!("{b:02x?}"),
            Ok(b) => format!("[{} bytes]", b.len()),
            Err(k) => format!("Err({k:?})"),
        })
        .collect();
    format!("[{}{}]", v.join(", "), if items.len() > 12 { ", …" } else { "" })
}

pub fn script_code(s: &[ReadStep]) -> String {
    s.iter()
        .map(|x| match x {
            ReadStep::Data(k) => format!("d{k}"),
            ReadStep::Pending => "p".into(),
            ReadStep::Err(_) => "e".into(),
        })
        .collect::<Vec<_>>()
        .join(",")
}

pub fn parse_script(s: &str) -> Vec<ReadStep> {
    s.split(',')
        .filter(|x| !x.is_empty())
        .map(|x| match x {
            "p" => ReadStep::Pending,
            "e" => ReadStep::Err(INJECTED),
            d => ReadStep::Data(d[1..].parse().expect("chunk")),
        })
        .collect()
}

/// One case: stream + arrival script.
pub fn check_case(which: Which, data: &[u8], script: &[ReadStep], seen: &mut Seen) -> Result<(), Fail> {
    let (want, eos_err) = reference(which, data);
    let injected = script.iter().filter(|s| matches!(s, ReadStep::Err(_))).count();
    let max_items = if which == Which::Bytes { data.len() + injected } else { want.len() + injected };
    // bytes handed over in the read buffer are not read again: the arrival script is shortened by them (Pending and
    // error steps keep their place)
    let pre = prefill_len(data, script);
    let adjusted: Vec<ReadStep> = {
        let mut left = pre;
        let mut v = Vec::new();
        for st in script {
            match st {
                ReadStep::Data(k) if left >= *k => left -= *k,
                ReadStep::Data(k) => {
                    v.push(ReadStep::Data(*k - left));
                    left = 0;
                }
                other => v.push(*other),
            }
        }
        v
    };
    let script: &[ReadStep] = &adjusted;
    let (got, ended) = actual(which, data, script, pre, max_items, seen)?;

    // separate the injected I/O errors from the rest
    let mut rest: Vec<Item> = Vec::new();
    let mut io_errs = 0;
    for it in &got {
        if *it == Err(INJECTED) {
            io_errs += 1;
        } else {
            rest.push(it.clone());
        }
    }
    if io_errs < injected {
        return Err(Fail {
            sig: "C13:io-error-swallowed".into(),
            desc: format!("{injected} I/O error(s) injected, {io_errs} surfaced as items; items={}", show(&got)),
        });
    }
    if io_errs > injected {
        return Err(Fail {
            sig: "C13:io-error-duplicated".into(),
            desc: format!("{injected} I/O error(s) injected, {io_errs} surfaced; items={}", show(&got)),
        });
    }
    seen.io_errors_surfaced += io_errs as u64;
    // stream order: an I/O error is surfaced after every frame that was complete in the bytes delivered before the
    // failing read (and decodable without knowing that the stream ends)
    // (not for bytes handed over in the read buffer: a Framed built from parts reads before it decodes them)
    if which != Which::Bytes && injected > 0 && pre == 0 {
        let mut delivered = pre;
        let mut nth = 0;
        for st in script {
            match st {
                ReadStep::Data(k) => delivered = (delivered + *k).min(data.len()),
                ReadStep::Pending => {}
                ReadStep::Err(_) => {
                    nth += 1;
                    let complete = complete_frames(which, &data[..delivered]);
                    // position of the nth injected error among the items
                    let mut seen_errs = 0;
                    let mut before = 0usize;
                    for it in &got {
                        if *it == Err(INJECTED) {
                            seen_errs += 1;
                            if seen_errs == nth {
                                break;
                            }
                        } else {
                            before += 1;
                        }
                    }
                    seen.error_order_checks += 1;
                    if seen_errs == nth && before < complete {
                        return Err(Fail {
                            sig: "C13:io-error-overtakes-frames".into(),
                            desc: format!(
                                "the {nth}. I/O error was surfaced after {before} item(s) although {complete} frame(s) were complete in the {delivered} bytes delivered before the failing read; items={}",
                                show(&got)
                            ),
                        });
                    }
                }
            }
        }
    }

    if which == Which::Bytes {
        // frame boundaries legitimately follow the reads
        let mut cat = Vec::new();
        for it in &rest {
            match it {
                Ok(b) => {
                    if b.is_empty() {
                        return Err(Fail {
                            sig: "C13:bytes:empty-frame".into(),
                            desc: "BytesCodec produced an empty frame".into(),
                        });
                    }
                    seen.frames += 1;
                    cat.extend_from_slice(b);
                }
                Err(k) => {
                    return Err(Fail {
                        sig: "C13:bytes:unexpected-error".into(),
                        desc: format!("unexpected error item {k:?}"),
                    })
                }
            }
        }
        if cat != data {
            let sig = if cat.len() < data.len() && data.starts_with(&cat) {
                "C13:frames-lost"
            } else if cat.len() > data.len() {
                "C13:frames-duplicated"
            } else {
                "C13:frames-differ"
            };
            return Err(Fail {
                sig: sig.into(),
                desc: format!("concatenated frames ({} bytes) != stream ({} bytes)", cat.len(), data.len()),
            });
        }
        if !ended {
            return Err(Fail {
                sig: "C13:no-end-of-stream".into(),
                desc: "stream did not end with None".into(),
            });
        }
        return Ok(());
    }

    // item-by-item comparison
    let n = want.len();
    if rest.len() < n || rest[..n] != want[..] {
        let k = rest.iter().zip(&want).take_while(|(a, b)| a == b).count();
        let sig = if rest.len() < n && rest[..] == want[..rest.len()] {
            if ended {
                "C13:none-before-end"
            } else {
                "C13:frames-lost"
            }
        } else if k < rest.len() && k < n && rest.len() > k + 1 && rest[k + 1..].starts_with(&want[k..k + 1]) {
            "C13:extra-frame"
        } else if k < n && matches!(want[k], Err(_)) {
            "C13:decode-error-not-surfaced"
        } else {
            "C13:frames-differ"
        };
        return Err(Fail {
            sig: sig.into(),
            desc: format!("items {} != reference {} (first difference at #{k}, ended={ended})", show(&got), show(&want)),
        });
    }
    for it in &want {
        match it {
            Ok(b) => {
                seen.frames += 1;
                if b.len() > 8192 {
                    seen.big_frames += 1;
                }
            }
            Err(_) => seen.decode_errors_surfaced += 1,
        }
    }
    if eos_err {
        // after an end-of-stream decode error the property is silent
        seen.eos_error_cases += 1;
        return Ok(());
    }
    if rest.len() > n {
        return Err(Fail {
            sig: "C13:extra-frame".into(),
            desc: format!("items {} continue past the reference {}", show(&got), show(&want)),
        });
    }
    if !ended {
        return Err(Fail {
            sig: "C13:no-end-of-stream".into(),
            desc: format!("stream did not end with None after {}", show(&got)),
        });
    }
    Ok(())
}

fn report(rep: &mut Report, which: Which, data: &[u8], script: &[ReadStep], seen: &mut Seen) {
    rep.evaluations += 1;
    let rp = || json!({"prop": "C13", "codec": which.name(), "bytes": data, "script": script_code(script)});
    match catch(|| check_case(which, data, script, seen)) {
        Ok(Ok(())) => {}
        Ok(Err(f)) => {
            let d = if data.len() <= 24 { format!("{data:02x?}") } else { format!("{} bytes", data.len()) };
            rep.violation(f.sig, format!("{} [codec={} stream={d} script={}]", f.desc, which.name(), script_code(script)), rp())
        }
        Err(p) => rep.violation("C13:panic", format!("panic: {p} [codec={} script={}]", which.name(), script_code(script)), rp()),
    }
}

/// chunk sizes of composition `mask` of `n` (bit i set = cut after byte i)
fn composition(n: usize, mask: u64) -> Vec<usize> {
    let mut v = Vec::new();
    let mut cur = 0;
    for i in 0..n {
        cur += 1;
        if i + 1 == n || mask & (1 << i) != 0 {
            v.push(cur);
            cur = 0;
        }
    }
    v
}

fn nth_string(alpha: &[u8], len: usize, mut n: u64) -> Vec<u8> {
    (0..len)
        .map(|_| {
            let b = alpha[(n % alpha.len() as u64) as usize];
            n /= alpha.len() as u64;
            b
        })
        .collect()
}

pub fn run(args: &Args, rep: &mut Report) {
    let mut seen = Seen::default();

    if let Some(p) = &args.replay {
        let v: Value = serde_json::from_str(&std::fs::read_to_string(p).expect("replay file")).unwrap();
        let bytes: Vec<u8> = v["bytes"].as_array().expect("bytes").iter().map(|x| x.as_u64().unwrap() as u8).collect();
        let which = Which::parse(v["codec"].as_str().unwrap());
        let script = parse_script(v["script"].as_str().unwrap());
        report(rep, which, &bytes, &script, &mut seen);
        rep.rule = "replay of one recorded stream + arrival script".into();
        return;
    }

    // (la, lb, lc): max stream length for all-compositions / +<=2 Pendings / +one I/O error
    let (la, lb, lc, n_random) = match args.tier.as_str() {
        "thorough" => (7usize, 6usize, 4usize, 6_000u64),
        "miri" => (3, 2, 2, 6),
        _ => (6, 5, 4, 600),
    };
    let la = args.extra_u64("la", la as u64) as usize;
    let n_random = args.extra_u64("random", n_random);

    let mut idx = 0u64;
    for which in [Which::Lp1, Which::Lines, Which::Bytes, Which::Stateful] {
        let alpha = which.alphabet();
        for len in 0..=la {
            let total = (alpha.len() as u64).pow(len as u32);
            for s in 0..total {
                let data = nth_string(alpha, len, s);
                let ncomp = if len == 0 { 1 } else { 1u64 << (len - 1) };
                for mask in 0..ncomp {
                    let my = args.mine(idx);
                    idx += 1;
                    if !my {
                        continue;
                    }
                    let chunks = composition(len, mask);
                    let base: Vec<ReadStep> = chunks.iter().map(|&k| ReadStep::Data(k)).collect();
                    // A: plain composition
                    report(rep, which, &data, &base, &mut seen);
                    rep.distinct_counted += 1;
                    rep.sample_spread(|| json!({"codec": which.name(), "stream_hex": format!("{data:02x?}"), "script": script_code(&base)}));
                    let slots = chunks.len() + 1; // before each chunk, and before EOF
                    // B: one or two Pendings
                    if len <= lb {
                        for a in 0..slots {
                            for b in a..=slots {
                                // b == slots means "only one Pending"
                                let mut sc = Vec::new();
                                for (i, st) in base.iter().enumerate() {
                                    if i == a {
                                        sc.push(ReadStep::Pending);
                                    }
                                    if i == b {
                                        sc.push(ReadStep::Pending);
                                    }
                                    sc.push(*st);
                                }
                                if a == chunks.len() {
                                    sc.push(ReadStep::Pending);
                                }
                                if b == chunks.len() {
                                    sc.push(ReadStep::Pending);
                                }
                                report(rep, which, &data, &sc, &mut seen);
                                rep.distinct_counted += 1;
                            }
                        }
                    }
                    // C: one I/O error at every read position (optionally preceded by a Pending)
                    if len <= lc {
                        for a in 0..slots {
                            for with_pending in [false, true] {
                                let mut sc = Vec::new();
                                for (i, st) in base.iter().enumerate() {
                                    if i == a {
                                        if with_pending {
                                            sc.push(ReadStep::Pending);
                                        }
                                        sc.push(ReadStep::Err(INJECTED));
                                    }
                                    sc.push(*st);
                                }
                                if a == chunks.len() {
                                    if with_pending {
                                        sc.push(ReadStep::Pending);
                                    }
                                    sc.push(ReadStep::Err(INJECTED));
                                }
                                report(rep, which, &data, &sc, &mut seen);
                                rep.distinct_counted += 1;
                            }
                        }
                    }
                }
            }
        }
    }
    rep.add("exhaustive_stream_compositions_all_shards", idx);
    rep.max("max_len_all_compositions", la as u64);
    rep.max("max_len_with_pendings", lb as u64);
    rep.max("max_len_with_io_error", lc as u64);

    // random long streams crossing the 1 KiB / 8 KiB marks
    let mut rng = Rng::new(args.seed ^ 0xC13).fork(args.shard);
    let sizes = [0usize, 1, 100, 1023, 1024, 1025, 4000, 8191, 8192, 8193, 20000];
    let chunk_sizes = [1usize, 7, 512, 1023, 1024, 1025, 8191, 8192, 8193, 30000];
    for i in 0..n_random {
        if !args.mine(i) {
            continue;
        }
        let which = *rng.pick(&[Which::Lp2, Which::Lines, Which::Bytes, Which::Stateful]);
        let target = if args.slow() { 600 + rng.usize(3000) } else { 1024 + rng.usize(64 * 1024) };
        let mut data = Vec::new();
        while data.len() < target {
            let n = if args.slow() { *rng.pick(&[0usize, 1, 100, 1023, 1025]) } else { *rng.pick(&sizes) };
            match which {
                Which::Lp2 => {
                    data.extend_from_slice(&(n as u16).to_be_bytes());
                    data.extend((0..n).map(|k| (k * 7 + i as usize) as u8));
                }
                Which::Lines => {
                    data.extend((0..n).map(|k| b"abcdefgh \xC3\xA9"[k % 11]).filter(|b| *b != b'\n'));
                    if rng.chance(1, 8) {
                        data.push(0xFF); // invalid UTF-8 line: decode error mid-stream
                    }
                    if rng.chance(1, 3) {
                        data.push(b'\r');
                    }
                    data.push(b'\n');
                }
                Which::Stateful => {
                    let n = n.min(255);
                    data.push(n as u8);
                    data.extend((0..n).map(|k| (k * 11 + i as usize) as u8));
                }
                _ => data.extend((0..n.max(1)).map(|k| (k * 13) as u8)),
            }
        }
        if which != Which::Bytes && rng.chance(1, 4) {
            let cut = rng.usize(7.min(data.len()));
            data.truncate(data.len() - cut); // partial trailing frame
        }
        let mut script = Vec::new();
        let mut left = data.len();
        let mut err_left = if rng.chance(1, 3) { 1 } else { 0 };
        while left > 0 {
            if rng.chance(1, 5) {
                script.push(ReadStep::Pending);
            }
            if err_left > 0 && rng.chance(1, 6) {
                script.push(ReadStep::Err(INJECTED));
                err_left -= 1;
            }
            let k = (*rng.pick(&chunk_sizes)).min(left);
            script.push(ReadStep::Data(k));
            left -= k;
        }
        if rng.chance(1, 3) {
            script.push(ReadStep::Pending);
        }
        report(rep, which, &data, &script, &mut seen);
        rep.nontrivial(fnv(&data) ^ fnv(script_code(&script).as_bytes()));
        if i < 2 {
            rep.sample(|| json!({"codec": which.name(), "stream_len": data.len(), "script_steps": script.len(), "kind": "random-long"}));
        }
    }

    rep.exhaustive = true;
    rep.rule = format!(
        "for each of {{1-byte length-prefixed test codec, LinesCodec, BytesCodec}}: every byte string of length <= {la} over a 5-symbol alphabet containing the codec's delimiters x every composition into read chunks; \
         for length <= {lb} additionally every placement of one or two Pending results among the read slots (incl. before EOF); for length <= {lc} one I/O error at every read slot (with/without a preceding Pending); \
         each run drives the real Framed::poll_next with a fresh identified waker per poll to None (+2 polls for stability) and compares with the whole-buffer reference decode (BytesCodec: concatenation rule); \
         plus random 1-64 KiB streams (2-byte length-prefixed frames up to 20000 bytes, long/invalid lines, raw bytes) with chunk sizes straddling 1 KiB/8 KiB. \
         Every enumerated (stream, script) pair is distinct by construction and counted; random cases de-duplicated by hash."
    );
    rep.add("obs_frames_compared", seen.frames);
    rep.add("obs_pending_polls", seen.pending_polls);
    rep.add("obs_io_errors_surfaced", seen.io_errors_surfaced);
    rep.add("obs_decode_errors_surfaced", seen.decode_errors_surfaced);
    rep.add("obs_end_of_stream_error_cases", seen.eos_error_cases);
    rep.add("obs_none_stability_polls", seen.none_stable_checks);
    rep.add("obs_frames_over_8k", seen.big_frames);
    rep.add("obs_mid_stream_conversions", seen.conversions);
    rep.add("obs_streams_with_prefilled_read_buffer", seen.prefilled);
    rep.add("obs_io_error_order_checks", seen.error_order_checks);
    rep.add("obs_polls", seen.polls);
}
