//! C17 — actix_utils::counter::Counter and local_waker::LocalWaker against reference models.

use std::{sync::Arc, task::Context};

use actix_utils::counter::{Counter, CounterGuard};
use local_waker::LocalWaker;
use vh_core::{
    exec::{is_waker_of, new_waker, reset_wakers, WakeRec},
    fnv_str, json, Args, Report, Rng, Value,
};

// ---------------------------------------------------------------- Counter

#[derive(Clone, Copy, Debug, PartialEq, Eq)]
enum Op {
    /// acquire a guard through counter handle h
    Get(usize),
    /// drop live guard #k
    DropG(usize),
    /// `available(cx)` through handle h with a fresh identified waker
    Avail(usize),
    /// clone counter handle h
    CloneC(usize),
    /// drop counter handle h (guards keep the shared state alive)
    DropC(usize),
}

impl Op {
    fn code(&self) -> String {
        match self {
            Op::Get(h) => format!("G{h}"),
            Op::DropG(k) => format!("D{k}"),
            Op::Avail(h) => format!("A{h}"),
            Op::CloneC(h) => format!("C{h}"),
            Op::DropC(h) => format!("X{h}"),
        }
    }
    fn parse(s: &str) -> Op {
        let (k, r) = s.split_at(1);
        let i: usize = r.parse().expect("index");
        match k {
            "G" => Op::Get(i),
            "D" => Op::DropG(i),
            "A" => Op::Avail(i),
            "C" => Op::CloneC(i),
            "X" => Op::DropC(i),
            _ => panic!("bad op {s}"),
        }
    }
}

fn code(ops: &[Op]) -> String {
    ops.iter().map(|o| o.code()).collect::<Vec<_>>().join(",")
}

#[derive(Clone, Debug)]
struct Model {
    cap: usize,
    live: usize,
    handles: usize,
    /// some task was answered "unavailable" and has not been owed-and-given a wake since
    parked: bool,
}

impl Model {
    fn ops(&self, max_guards: usize, max_handles: usize) -> Vec<Op> {
        let mut v = Vec::new();
        if self.handles > 0 {
            let hs: Vec<usize> = if self.handles > 1 { vec![0, self.handles - 1] } else { vec![0] };
            for &h in &hs {
                if self.live < max_guards {
                    v.push(Op::Get(h));
                }
                v.push(Op::Avail(h));
            }
            if self.handles < max_handles {
                v.push(Op::CloneC(0));
            }
            if self.handles > 1 || self.live > 0 {
                // keep at least one way to observe
                if self.handles > 1 {
                    v.push(Op::DropC(self.handles - 1));
                }
            }
        }
        if self.live > 0 {
            v.push(Op::DropG(0));
            if self.live > 1 {
                v.push(Op::DropG(self.live - 1));
            }
        }
        v
    }
    fn step(&mut self, op: Op) {
        match op {
            Op::Get(_) => self.live += 1,
            Op::DropG(_) => {
                if self.live == self.cap {
                    self.parked = false;
                }
                self.live -= 1;
            }
            Op::Avail(_) => {
                if self.live >= self.cap {
                    self.parked = true;
                }
            }
            Op::CloneC(_) => self.handles += 1,
            Op::DropC(_) => self.handles -= 1,
        }
    }
}

struct Fail {
    sig: String,
    desc: String,
    at: usize,
}

#[derive(Default)]
struct Seen {
    unavailable_answers: u64,
    available_answers: u64,
    release_wakes: u64,
    releases_without_parked: u64,
    over_capacity_states: u64,
    extra_wakes_info: u64,
    total_checks: u64,
}

fn run_counter_case(cap: usize, ops: &[Op], seen: &mut Seen) -> Result<(), Fail> {
    reset_wakers();
    let mut handles: Vec<Counter> = vec![Counter::new(cap)];
    let mut guards: Vec<CounterGuard> = Vec::new();
    let mut m = Model {
        cap,
        live: 0,
        handles: 1,
        parked: false,
    };
    let mut parked: Option<Arc<WakeRec>> = None;
    let mut all_wakers: Vec<Arc<WakeRec>> = Vec::new();
    let mut wno = 0u64;

    for (at, &op) in ops.iter().enumerate() {
        let fail = |sig: &str, desc: String| Fail {
            sig: sig.to_string(),
            desc,
            at,
        };
        match op {
            Op::Get(h) => {
                guards.push(handles[h].get());
                m.live += 1;
                if m.live > m.cap {
                    seen.over_capacity_states += 1;
                }
            }
            Op::DropG(k) => {
                let crossing = m.live == m.cap && m.cap > 0;
                let wakes_before = parked.as_ref().map(|r| r.wakes()).unwrap_or(0);
                drop(guards.remove(k));
                m.live -= 1;
                if crossing {
                    if m.parked {
                        let rec = parked.take().unwrap();
                        m.parked = false;
                        // the wake-up is delivered by this very drop: a wake-up spent on an earlier drop that left the
                        // counter full does not count (the registration would be gone when the slot really frees up)
                        if rec.wakes() == wakes_before {
                            return Err(fail(
                                "C17:counter:lost-wakeup-on-release",
                                format!(
                                    "guard drop took the count from capacity {} to {} but the task last answered 'unavailable' (waker #{}) was not woken by it ({} earlier wake-up(s) while the counter stayed full)",
                                    m.cap, m.live, rec.id, wakes_before
                                ),
                            ));
                        }
                        seen.release_wakes += 1;
                    } else {
                        seen.releases_without_parked += 1;
                    }
                }
            }
            Op::Avail(h) => {
                let (w, rec) = new_waker(wno);
                wno += 1;
                all_wakers.push(rec.clone());
                let cx = Context::from_waker(&w);
                let got = handles[h].available(&cx);
                let want = m.live < m.cap;
                if got != want {
                    return Err(fail(
                        if got { "C17:counter:available-true-at-capacity" } else { "C17:counter:available-false-below-capacity" },
                        format!("available() = {got} with {} live guards, capacity {}", m.live, m.cap),
                    ));
                }
                if got {
                    seen.available_answers += 1;
                } else {
                    seen.unavailable_answers += 1;
                    m.parked = true;
                    parked = Some(rec);
                }
            }
            Op::CloneC(h) => {
                let c = handles[h].clone();
                handles.push(c);
                m.handles += 1;
            }
            Op::DropC(h) => {
                drop(handles.remove(h));
                m.handles -= 1;
            }
        }
        // total() through every handle
        for c in &handles {
            seen.total_checks += 1;
            if c.total() != m.live {
                return Err(fail(
                    "C17:counter:total-mismatch",
                    format!("total() = {} but {} guards are alive", c.total(), m.live),
                ));
            }
        }
    }
    // wakes of wakers that were not owed one are harmless; count as information
    for w in &all_wakers {
        if w.wakes() > 1 {
            seen.extra_wakes_info += 1;
        }
    }
    Ok(())
}

// ---------------------------------------------------------------- LocalWaker

#[derive(Clone, Copy, Debug, PartialEq, Eq)]
enum WOp {
    Register(usize),
    Wake,
    /// take, then drop the returned waker
    TakeDrop,
    /// take, then wake the returned waker
    TakeWake,
}

impl WOp {
    fn code(&self) -> String {
        match self {
            WOp::Register(i) => format!("r{i}"),
            WOp::Wake => "w".into(),
            WOp::TakeDrop => "t".into(),
            WOp::TakeWake => "u".into(),
        }
    }
    fn parse(s: &str) -> WOp {
        match s {
            "w" => WOp::Wake,
            "t" => WOp::TakeDrop,
            "u" => WOp::TakeWake,
            _ => WOp::Register(s[1..].parse().expect("idx")),
        }
    }
}

fn wcode(ops: &[WOp]) -> String {
    ops.iter().map(|o| o.code()).collect::<Vec<_>>().join(",")
}

#[derive(Default)]
struct WSeen {
    register_true: u64,
    register_false: u64,
    wakes_delivered: u64,
    wake_on_empty: u64,
    takes_some: u64,
    takes_none: u64,
}

fn run_waker_case(ops: &[WOp], nwakers: usize, seen: &mut WSeen) -> Result<(), Fail> {
    reset_wakers();
    let lw = LocalWaker::new();
    let wakers: Vec<_> = (0..nwakers).map(|i| new_waker(i as u64)).collect();
    let mut expect = vec![0u64; nwakers];
    let mut slot: Option<usize> = None;
    for (at, &op) in ops.iter().enumerate() {
        let fail = |sig: &str, desc: String| Fail {
            sig: sig.to_string(),
            desc,
            at,
        };
        match op {
            WOp::Register(i) => {
                let got = lw.register(&wakers[i].0);
                if got != slot.is_some() {
                    return Err(fail(
                        "C17:localwaker:register-return",
                        format!("register returned {got} but a waker was{} registered before", if slot.is_some() { "" } else { " not" }),
                    ));
                }
                if got {
                    seen.register_true += 1
                } else {
                    seen.register_false += 1
                }
                slot = Some(i);
            }
            WOp::Wake => {
                lw.wake();
                match slot.take() {
                    Some(i) => {
                        expect[i] += 1;
                        seen.wakes_delivered += 1;
                    }
                    None => seen.wake_on_empty += 1,
                }
            }
            WOp::TakeDrop | WOp::TakeWake => {
                let got = lw.take();
                match (got, slot.take()) {
                    (Some(w), Some(i)) => {
                        seen.takes_some += 1;
                        if !is_waker_of(&w, &wakers[i].1) {
                            return Err(fail(
                                "C17:localwaker:take-wrong-waker",
                                format!("take() returned a waker that is not the most recently registered one (#{i})"),
                            ));
                        }
                        if op == WOp::TakeWake {
                            w.wake();
                            expect[i] += 1;
                        }
                    }
                    (None, None) => seen.takes_none += 1,
                    (Some(_), None) => return Err(fail("C17:localwaker:take-some-on-empty", "take() returned a waker from an empty slot".into())),
                    (None, Some(i)) => return Err(fail("C17:localwaker:take-none-on-full", format!("take() returned None although waker #{i} is registered"))),
                }
            }
        }
        for i in 0..nwakers {
            let got = wakers[i].1.wakes();
            if got != expect[i] {
                return Err(fail(
                    if got < expect[i] { "C17:localwaker:wake-not-delivered" } else { "C17:localwaker:wrong-or-repeated-wake" },
                    format!("waker #{i} has been woken {got} times, model says {}", expect[i]),
                ));
            }
        }
    }
    Ok(())
}

// ---------------------------------------------------------------- driver

fn report_counter(rep: &mut Report, cap: usize, ops: &[Op], seen: &mut Seen) {
    rep.evaluations += 1;
    let rp = json!({"prop": "C17", "kind": "counter", "cap": cap, "ops": code(ops)});
    match vh_core::catch(|| run_counter_case(cap, ops, seen)) {
        Ok(Ok(())) => {}
        Ok(Err(f)) => rep.violation(f.sig, format!("{} [cap={cap} ops={} failing-op-index={}]", f.desc, code(ops), f.at), rp),
        Err(p) => rep.violation("C17:counter:panic", format!("panic: {p} [cap={cap} ops={}]", code(ops)), rp),
    }
}

fn report_waker(rep: &mut Report, ops: &[WOp], seen: &mut WSeen) {
    rep.evaluations += 1;
    let rp = json!({"prop": "C17", "kind": "localwaker", "ops": wcode(ops)});
    match vh_core::catch(|| run_waker_case(ops, 3, seen)) {
        Ok(Ok(())) => {}
        Ok(Err(f)) => rep.violation(f.sig, format!("{} [ops={} failing-op-index={}]", f.desc, wcode(ops), f.at), rp),
        Err(p) => rep.violation("C17:localwaker:panic", format!("panic: {p} [ops={}]", wcode(ops)), rp),
    }
}

#[allow(clippy::too_many_arguments)]
fn enumerate(m: &Model, prefix: &mut Vec<Op>, depth: usize, leaf_no: &mut u64, args: &Args, rep: &mut Report, seen: &mut Seen) {
    let ops = if prefix.len() < depth { m.ops(m.cap + 2, 2) } else { Vec::new() };
    if ops.is_empty() {
        let n = *leaf_no;
        *leaf_no += 1;
        if args.mine(n) {
            report_counter(rep, m.cap, prefix, seen);
            if prefix.iter().any(|o| matches!(o, Op::Avail(_))) && prefix.iter().any(|o| matches!(o, Op::Get(_))) {
                rep.distinct_counted += 1;
            }
            rep.sample_spread(|| json!({"kind": "counter", "cap": m.cap, "ops": code(prefix)}));
        }
        return;
    }
    for op in ops {
        let mut m2 = m.clone();
        m2.step(op);
        prefix.push(op);
        enumerate(&m2, prefix, depth, leaf_no, args, rep, seen);
        prefix.pop();
    }
}

fn enumerate_w(prefix: &mut Vec<WOp>, depth: usize, leaf_no: &mut u64, args: &Args, rep: &mut Report, seen: &mut WSeen) {
    if prefix.len() == depth {
        let n = *leaf_no;
        *leaf_no += 1;
        if args.mine(n) {
            report_waker(rep, prefix, seen);
            if prefix.iter().any(|o| matches!(o, WOp::Register(_))) {
                rep.distinct_counted += 1;
            }
        }
        return;
    }
    for op in [WOp::Register(0), WOp::Register(1), WOp::Wake, WOp::TakeDrop, WOp::TakeWake] {
        prefix.push(op);
        enumerate_w(prefix, depth, leaf_no, args, rep, seen);
        prefix.pop();
    }
}

pub fn run(args: &Args, rep: &mut Report) {
    let mut seen = Seen::default();
    let mut wseen = WSeen::default();

    if let Some(p) = &args.replay {
        let v: Value = serde_json::from_str(&std::fs::read_to_string(p).expect("replay file")).unwrap();
        let ops = v["ops"].as_str().expect("ops");
        if v["kind"] == "counter" {
            let ops: Vec<Op> = ops.split(',').filter(|s| !s.is_empty()).map(Op::parse).collect();
            report_counter(rep, v["cap"].as_u64().unwrap() as usize, &ops, &mut seen);
        } else {
            let ops: Vec<WOp> = ops.split(',').filter(|s| !s.is_empty()).map(WOp::parse).collect();
            report_waker(rep, &ops, &mut wseen);
        }
        rep.rule = "replay of one recorded operation sequence".into();
        return;
    }

    let (depth, wdepth, n_random) = match args.tier.as_str() {
        "thorough" => (9, 8, 200_000),
        "miri" => (4, 4, 100),
        _ => (7, 6, 20_000),
    };
    let depth = args.extra_u64("depth", depth) as usize;
    let wdepth = args.extra_u64("wdepth", wdepth) as usize;
    let n_random = args.extra_u64("random", n_random);

    let mut leaf_no = 0u64;
    for cap in 0..=3usize {
        let m = Model {
            cap,
            live: 0,
            handles: 1,
            parked: false,
        };
        enumerate(&m, &mut Vec::new(), depth, &mut leaf_no, args, rep, &mut seen);
    }
    rep.add("exhaustive_counter_sequences_all_shards", leaf_no);
    let mut wleaf = 0u64;
    enumerate_w(&mut Vec::new(), wdepth, &mut wleaf, args, rep, &mut wseen);
    rep.add("exhaustive_localwaker_sequences_all_shards", wleaf);
    rep.max("max_counter_depth", depth as u64);
    rep.max("max_localwaker_depth", wdepth as u64);

    // random long sequences: more guards, more handles, any index
    let mut rng = Rng::new(args.seed ^ 0xC17).fork(args.shard);
    for i in 0..n_random {
        if !args.mine(i) {
            continue;
        }
        let cap = rng.usize(5);
        let len = if args.slow() { 5 + rng.usize(40) } else { 5 + rng.usize(296) };
        let mut m = Model {
            cap,
            live: 0,
            handles: 1,
            parked: false,
        };
        let mut ops = Vec::new();
        for _ in 0..len {
            let avail = m.ops(cap + 3, 3);
            let mut op = *rng.pick(&avail);
            op = match op {
                Op::Get(_) => Op::Get(rng.usize(m.handles)),
                Op::Avail(_) => Op::Avail(rng.usize(m.handles)),
                Op::DropG(_) => Op::DropG(rng.usize(m.live)),
                Op::CloneC(_) => Op::CloneC(rng.usize(m.handles)),
                o => o,
            };
            m.step(op);
            ops.push(op);
        }
        report_counter(rep, cap, &ops, &mut seen);
        rep.nontrivial(fnv_str(&format!("{cap}:{}", code(&ops))));
        if i < 2 {
            rep.sample(|| json!({"kind": "counter-random", "cap": cap, "ops": code(&ops)}));
        }
        // random LocalWaker sequence with 3 wakers
        let wl = 3 + rng.usize(40);
        let wops: Vec<WOp> = (0..wl)
            .map(|_| match rng.usize(6) {
                0 => WOp::Register(0),
                1 => WOp::Register(1),
                2 => WOp::Register(2),
                3 => WOp::Wake,
                4 => WOp::TakeDrop,
                _ => WOp::TakeWake,
            })
            .collect();
        report_waker(rep, &wops, &mut wseen);
        rep.nontrivial(fnv_str(&wcode(&wops)));
    }

    rep.exhaustive = true;
    rep.rule = format!(
        "Counter: every sequence of length <= {depth} over {{get guard (via handle first/last), drop guard (first/last), available(fresh waker) (via handle first/last), clone counter, drop cloned counter}} \
         for capacities 0..3 with <= capacity+2 live guards and <= 2 handles, enumerated from the model's enabled set (leaves; prefixes checked on the way); \
         LocalWaker: every sequence of length {wdepth} over {{register(w0), register(w1), wake, take+drop, take+wake}}; plus random sequences (capacity 0..4, any index, 3 wakers) to length 300. \
         Non-trivial: counter case with at least one get and one available(); LocalWaker case with at least one register. Exhaustive cases distinct by construction; random ones de-duplicated by hash."
    );
    rep.add("obs_unavailable_answers", seen.unavailable_answers);
    rep.add("obs_available_answers", seen.available_answers);
    rep.add("obs_release_wakes_checked", seen.release_wakes);
    rep.add("obs_releases_without_parked_task", seen.releases_without_parked);
    rep.add("obs_over_capacity_states", seen.over_capacity_states);
    rep.add("obs_total_checks", seen.total_checks);
    rep.add("obs_extra_wakes_info", seen.extra_wakes_info);
    rep.add("obs_lw_register_true", wseen.register_true);
    rep.add("obs_lw_register_false", wseen.register_false);
    rep.add("obs_lw_wakes_delivered", wseen.wakes_delivered);
    rep.add("obs_lw_wake_on_empty", wseen.wake_on_empty);
    rep.add("obs_lw_takes_some", wseen.takes_some);
    rep.add("obs_lw_takes_none", wseen.takes_none);
}
