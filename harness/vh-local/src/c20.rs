//! C20 — ByteString is always valid UTF-8 and agrees with `str`.
//!
//! Every byte string over a UTF-8-fragment alphabet goes through every
//! constructor; every produced value is checked with `str::from_utf8`
//! (invariant monitor) and compared with the equivalent `str` operation,
//! including panic parity.

use std::{
    borrow::Borrow,
    collections::hash_map::DefaultHasher,
    hash::{Hash, Hasher},
};

use bytes::{Bytes, BytesMut};
use bytestring::ByteString;
use vh_core::{catch, fnv, json, Args, Report, Rng, Value};

const ALPHABET: [u8; 12] = [b'A', 0x7F, 0xC3, 0xA9, 0xE2, 0x82, 0xAC, 0xF0, 0x9F, 0x98, 0x80, 0xFF];
/// Second alphabet: the first and last byte of every UTF-8 byte class (continuation 80/BF, two-byte leads C2/DF,
/// three-byte leads E0 (with its smallest second byte A0) and EF, four-byte leads F0 (smallest second byte 90) and F4
/// (largest second byte 8F)), where range checks written by hand go wrong.
const ALPHABET2: [u8; 12] = [b'A', 0x80, 0xBF, 0xC2, 0xDF, 0xE0, 0xA0, 0xEF, 0xF0, 0x90, 0xF4, 0x8F];

struct Fail {
    sig: String,
    desc: String,
}

fn fail<T>(sig: &str, desc: String) -> Result<T, Fail> {
    Err(Fail {
        sig: sig.to_string(),
        desc,
    })
}

#[derive(Default)]
struct Seen {
    valid_inputs: u64,
    invalid_inputs: u64,
    constructor_accepts: u64,
    constructor_rejects: u64,
    values_checked: u64,
    splits_ok: u64,
    splits_panicked: u64,
    slice_refs: u64,
    foreign_slice_panics: u64,
    ord_pairs: u64,
    format_specs: u64,
    shared_storage_comparisons: u64,
    multibyte_inputs: u64,
    serde_round_trips: u64,
    serde_documents_accepted: u64,
    serde_documents_rejected: u64,
}

fn h<T: Hash + ?Sized>(t: &T) -> u64 {
    let mut s = DefaultHasher::new();
    t.hash(&mut s);
    s.finish()
}

/// Invariant monitor + differential comparison of one value with its `str` equivalent.
fn check_value(bs: &ByteString, s: &str, how: &str, seen: &mut Seen) -> Result<(), Fail> {
    seen.values_checked += 1;
    let raw: &[u8] = bs.as_bytes().as_ref();
    if std::str::from_utf8(raw).is_err() {
        return fail(
            "C20:invariant:invalid-utf8-value",
            format!("value produced by {how} holds invalid UTF-8 bytes {raw:02x?}"),
        );
    }
    if raw != s.as_bytes() {
        return fail("C20:value:bytes-differ", format!("{how}: bytes {raw:02x?} != expected {:02x?}", s.as_bytes()));
    }
    let d: &str = bs;
    if d != s {
        return fail("C20:value:deref-differs", format!("{how}: deref {d:?} != {s:?}"));
    }
    let b: &str = bs.borrow();
    let a: &str = bs.as_ref();
    let ab: &[u8] = bs.as_ref();
    if b != s || a != s || ab != s.as_bytes() {
        return fail("C20:value:borrow-asref-differs", format!("{how}: Borrow/AsRef disagree with {s:?}"));
    }
    if !(*bs == *s) || !(bs == &s) || !(bs == &s.to_string()) || !(bs == &bs.clone()) {
        return fail("C20:value:eq-differs", format!("{how}: == disagrees with str equality for {s:?}"));
    }
    if h(bs) != h(s) {
        return fail("C20:value:hash-differs", format!("{how}: Hash differs from str hash for {s:?}"));
    }
    if bs.to_string() != s || format!("{bs}") != s || format!("{bs:?}") != format!("{s:?}") {
        return fail("C20:value:display-differs", format!("{how}: Display/Debug/to_string differ for {s:?}"));
    }
    // Display / Debug honour the format specification exactly as str does (width, fill, alignment, precision)
    let specs: [(String, String); 6] = [
        (format!("{bs:>8}"), format!("{s:>8}")),
        (format!("{bs:*^7}"), format!("{s:*^7}")),
        (format!("{bs:.2}"), format!("{s:.2}")),
        (format!("{bs:<5.1}|"), format!("{s:<5.1}|")),
        (format!("{bs:12?}"), format!("{s:12?}")),
        (format!("{bs:#?}"), format!("{s:#?}")),
    ];
    seen.format_specs += specs.len() as u64;
    if let Some((g, w)) = specs.iter().find(|(g, w)| g != w) {
        return fail("C20:value:display-ignores-format-spec", format!("{how}: formatting {s:?} with a width/fill/precision specification gives {g:?}, str gives {w:?}"));
    }
    if String::from(bs.clone()) != s || bs.clone().into_bytes().as_ref() != s.as_bytes() {
        return fail("C20:value:into-differs", format!("{how}: String::from / into_bytes differ for {s:?}"));
    }
    if bs.len() != s.len() || bs.chars().count() != s.chars().count() || bs.is_empty() != s.is_empty() {
        return fail("C20:value:len-differs", format!("{how}: len/chars differ for {s:?}"));
    }
    Ok(())
}

fn check_splits(bs: &ByteString, s: &str, depth: u32, seen: &mut Seen) -> Result<(), Fail> {
    for mid in 0..=s.len() + 1 {
        let want = catch(|| {
            let (a, b) = s.split_at(mid);
            (a.to_string(), b.to_string())
        });
        let got = catch(|| bs.split_at(mid));
        match (want, got) {
            (Ok((wa, wb)), Ok((ga, gb))) => {
                seen.splits_ok += 1;
                check_value(&ga, &wa, "split_at.0", seen)?;
                check_value(&gb, &wb, "split_at.1", seen)?;
                // values that share one buffer compare by content like any others
                seen.shared_storage_comparisons += 4;
                if (ga == *bs) != (wa == s) || (*bs == gb) != (s == wb) || (ga == gb) != (wa == wb) || (ga == s) != (wa == s) || (h(&ga) == h(bs)) != (h(wa.as_str()) == h(s)) {
                    return fail(
                        "C20:eq:shared-storage-compares-wrongly",
                        format!("split_at({mid}) of {s:?}: comparing the halves {wa:?} / {wb:?} with each other or with the whole disagrees with str equality"),
                    );
                }
                if ga.cmp(bs) != wa.as_str().cmp(s) || gb.cmp(&ga) != wb.cmp(&wa) {
                    return fail("C20:ord:differs-from-str", format!("split_at({mid}) of {s:?}: ordering of the halves / the whole differs from str"));
                }
                if depth > 0 {
                    check_splits(&ga, &wa, depth - 1, seen)?;
                    check_splits(&gb, &wb, depth - 1, seen)?;
                }
            }
            (Err(_), Err(_)) => seen.splits_panicked += 1,
            (Ok(_), Err(p)) => {
                return fail(
                    "C20:split_at:panics-where-str-does-not",
                    format!("split_at({mid}) on {s:?} panicked ({p}) but str::split_at succeeds"),
                )
            }
            (Err(_), Ok((ga, gb))) => {
                let bad = std::str::from_utf8(ga.as_bytes()).is_err() || std::str::from_utf8(gb.as_bytes()).is_err();
                return fail(
                    if bad { "C20:split_at:no-panic-and-invalid-utf8" } else { "C20:split_at:no-panic-where-str-panics" },
                    format!(
                        "split_at({mid}) on {s:?} ({:02x?}) returned ({:02x?}, {:02x?}) but str::split_at panics",
                        s.as_bytes(),
                        ga.as_bytes().as_ref(),
                        gb.as_bytes().as_ref()
                    ),
                );
            }
        }
    }
    Ok(())
}

fn check_slices(bs: &ByteString, s: &str, seen: &mut Seen) -> Result<(), Fail> {
    let view: &str = bs;
    let bounds: Vec<usize> = (0..=view.len()).filter(|&i| view.is_char_boundary(i)).collect();
    for (x, &i) in bounds.iter().enumerate() {
        for &j in &bounds[x..] {
            let sub = &view[i..j];
            let got = match catch(|| bs.slice_ref(sub)) {
                Ok(g) => g,
                Err(p) => {
                    return fail("C20:slice_ref:panic-on-own-subslice", format!("slice_ref(&self[{i}..{j}]) of {s:?} panicked: {p}"))
                }
            };
            seen.slice_refs += 1;
            check_value(&got, &s[i..j], "slice_ref", seen)?;
            seen.shared_storage_comparisons += 2;
            if (got == *bs) != (&s[i..j] == s) || (*bs == got) != (s == &s[i..j]) || (got == view) != (&s[i..j] == s) {
                return fail(
                    "C20:eq:shared-storage-compares-wrongly",
                    format!("slice_ref(&self[{i}..{j}]) of {s:?} compared with the value it was cut from disagrees with str equality"),
                );
            }
        }
    }
    // a foreign slice with equal content is not a sub-slice: documented panic
    if !s.is_empty() {
        let foreign = s.to_string();
        match catch(|| bs.slice_ref(&foreign)) {
            Err(_) => seen.foreign_slice_panics += 1,
            Ok(g) => {
                return fail(
                    "C20:slice_ref:foreign-slice-accepted",
                    format!("slice_ref of a foreign equal-content slice returned {g:?} instead of panicking"),
                )
            }
        }
    }
    Ok(())
}

fn utf8_err_eq(a: &std::str::Utf8Error, b: &std::str::Utf8Error) -> bool {
    a.valid_up_to() == b.valid_up_to() && a.error_len() == b.error_len()
}

macro_rules! arr_try {
    ($input:expr, $($n:literal)+) => {
        match $input.len() {
            $($n => {
                let a: [u8; $n] = $input.try_into().unwrap();
                Some((ByteString::try_from(a), ByteString::try_from(&a)))
            })+
            _ => None,
        }
    };
}

/// All fallible constructors on one byte string.
fn constructors(input: &[u8], native: bool) -> Vec<(&'static str, Result<ByteString, std::str::Utf8Error>)> {
    let mut v: Vec<(&'static str, Result<ByteString, std::str::Utf8Error>)> = vec![
        ("try_from(&[u8])", ByteString::try_from(input)),
        ("try_from(Vec<u8>)", ByteString::try_from(input.to_vec())),
        ("try_from(Bytes)", ByteString::try_from(Bytes::copy_from_slice(input))),
        ("try_from(BytesMut)", ByteString::try_from(BytesMut::from(input))),
    ];
    // a Bytes that is a window into a larger shared buffer
    let mut big = vec![0xFFu8; 3];
    big.extend_from_slice(input);
    big.extend_from_slice(&[0xFF, 0x80]);
    let shared = Bytes::from(big);
    v.push(("try_from(Bytes window)", ByteString::try_from(shared.slice(3..3 + input.len()))));
    if let Some((a, b)) = arr_try!(input, 0 1 2 3 4 5 6 7 8) {
        v.push(("try_from([u8; N])", a));
        v.push(("try_from(&[u8; N])", b));
    }
    let _ = native;
    v
}

/// The `serde` feature is part of the safe API: a `ByteString` obtained by deserialising must be valid UTF-8 and equal
/// to what `String` gives for the same document, documents `String` rejects must be rejected, and serialising agrees
/// with `str`. The raw input is used twice: as the content of a JSON string literal (whatever bytes it has: quotes,
/// backslashes, control characters, invalid UTF-8) and, when it is valid, through a serialise / deserialise round trip.
fn check_serde(input: &[u8], seen: &mut Seen) -> Result<(), Fail> {
    let mut docs: Vec<Vec<u8>> = Vec::new();
    let mut d = vec![b'"'];
    d.extend_from_slice(input);
    d.push(b'"');
    docs.push(d);
    // the same bytes as \u escapes of their values (lone surrogates and NUL included when the bytes say so)
    if input.len() <= 3 {
        let mut e = String::from("\"");
        for pair in input.chunks(2) {
            let v = if pair.len() == 2 { (pair[0] as u16) << 8 | pair[1] as u16 } else { pair[0] as u16 };
            e.push_str(&format!("\\u{v:04x}"));
        }
        e.push('"');
        docs.push(e.into_bytes());
    }
    for doc in &docs {
        let want: Result<String, _> = serde_json::from_slice(doc);
        let got: Result<ByteString, _> = serde_json::from_slice(doc);
        match (want, got) {
            (Ok(w), Ok(g)) => {
                seen.serde_documents_accepted += 1;
                if std::str::from_utf8(g.as_bytes()).is_err() {
                    return fail("C20:serde:invalid-utf8-value", format!("deserialising {doc:?} gave a ByteString whose bytes {:?} are not valid UTF-8", g.as_bytes()));
                }
                if g.as_bytes() != w.as_bytes() {
                    return fail("C20:serde:differs-from-string", format!("deserialising {doc:?}: ByteString {:?}, String {:?}", g.as_bytes(), w.as_bytes()));
                }
                check_value(&g, &w, "serde::Deserialize", seen)?;
                let (js, jb) = (serde_json::to_string(w.as_str()).unwrap(), serde_json::to_string(&g));
                match jb {
                    Ok(jb) if jb == js => seen.serde_round_trips += 1,
                    other => return fail("C20:serde:serialize-differs-from-str", format!("serialising {w:?}: ByteString gave {other:?}, str gave {js:?}")),
                }
            }
            (Err(_), Err(_)) => seen.serde_documents_rejected += 1,
            (Ok(w), Err(e)) => return fail("C20:serde:rejects-what-string-accepts", format!("document {doc:?} deserialises to String {w:?} but not to ByteString: {e}")),
            (Err(e), Ok(g)) => {
                return fail(
                    if std::str::from_utf8(g.as_bytes()).is_err() { "C20:serde:invalid-utf8-value" } else { "C20:serde:accepts-what-string-rejects" },
                    format!("document {doc:?} is rejected for String ({e}) but gave ByteString with bytes {:?}", g.as_bytes()),
                )
            }
        }
    }
    Ok(())
}

fn run_input(input: &[u8], native: bool, prev_valid: &mut Vec<String>, seen: &mut Seen) -> Result<(), Fail> {
    if native {
        check_serde(input, seen)?;
    }
    let want = std::str::from_utf8(input);
    if want.is_ok() {
        seen.valid_inputs += 1;
        if input.iter().any(|b| *b >= 0x80) {
            seen.multibyte_inputs += 1;
        }
    } else {
        seen.invalid_inputs += 1;
    }
    let mut values: Vec<(&'static str, ByteString)> = Vec::new();
    for (how, got) in constructors(input, native) {
        match (&want, got) {
            (Ok(_), Ok(bs)) => {
                seen.constructor_accepts += 1;
                values.push((how, bs));
            }
            (Err(we), Err(ge)) => {
                seen.constructor_rejects += 1;
                if !utf8_err_eq(we, &ge) {
                    return fail(
                        "C20:constructor:utf8error-differs",
                        format!("{how} on {input:02x?}: error {ge:?} differs from str::from_utf8's {we:?}"),
                    );
                }
            }
            (Ok(_), Err(e)) => {
                return fail("C20:constructor:rejects-valid", format!("{how} rejected valid UTF-8 {input:02x?}: {e:?}"))
            }
            (Err(_), Ok(bs)) => {
                // run the invariant monitor to phrase the witness, then report acceptance itself
                let _ = bs;
                return fail("C20:constructor:accepts-invalid", format!("{how} accepted invalid UTF-8 {input:02x?}"));
            }
        }
    }
    let Ok(s) = want else { return Ok(()) };
    values.push(("from(&str)", ByteString::from(s)));
    values.push(("from(String)", ByteString::from(s.to_string())));
    values.push(("from(Box<str>)", ByteString::from(s.to_string().into_boxed_str())));
    if native {
        // from_static needs a 'static str: leak (native only, Miri's leak checker stays meaningful)
        let st: &'static str = Box::leak(s.to_string().into_boxed_str());
        values.push(("from_static", ByteString::from_static(st)));
    }
    if s.is_empty() {
        values.push(("new", ByteString::new()));
        values.push(("default", ByteString::default()));
    }
    for (n, (how, bs)) in values.iter().enumerate() {
        check_value(bs, s, how, seen)?;
        if !native && n % 3 != 0 {
            continue; // Miri: full split/slice sweep on every third constructor only
        }
        check_splits(bs, s, if s.len() <= 5 { 1 } else { 0 }, seen)?;
        check_slices(bs, s, seen)?;
    }
    // ordering against earlier valid inputs (a sliding window keeps this linear)
    let bs = &values[0].1;
    for other in prev_valid.iter() {
        seen.ord_pairs += 1;
        let ob = ByteString::from(other.as_str());
        if bs.cmp(&ob) != s.cmp(other.as_str()) || bs.partial_cmp(&ob) != s.partial_cmp(other.as_str()) || (bs == &ob) != (s == other) {
            return fail("C20:ord:differs-from-str", format!("cmp({s:?}, {other:?}) differs between ByteString and str"));
        }
        if (h(bs) == h(&ob)) != (h(s) == h(other.as_str())) {
            return fail("C20:hash:differs-from-str", format!("hash equality of {s:?} / {other:?} differs from str"));
        }
    }
    if prev_valid.len() >= 24 {
        prev_valid.remove(0);
    }
    prev_valid.push(s.to_string());
    Ok(())
}

fn report(rep: &mut Report, input: &[u8], native: bool, prev: &mut Vec<String>, seen: &mut Seen) {
    rep.evaluations += 1;
    let rp = json!({"prop": "C20", "bytes": input});
    match catch(|| run_input(input, native, prev, seen)) {
        Ok(Ok(())) => {}
        Ok(Err(f)) => rep.violation(f.sig, format!("{} [input={input:02x?}]", f.desc), rp),
        Err(p) => rep.violation("C20:panic", format!("unexpected panic: {p} [input={input:02x?}]"), rp),
    }
}

pub fn run(args: &Args, rep: &mut Report) {
    let mut seen = Seen::default();
    let native = !args.slow();
    let mut prev: Vec<String> = Vec::new();

    if let Some(p) = &args.replay {
        let v: Value = serde_json::from_str(&std::fs::read_to_string(p).expect("replay file")).unwrap();
        let bytes: Vec<u8> = v["bytes"].as_array().expect("bytes").iter().map(|x| x.as_u64().unwrap() as u8).collect();
        report(rep, &bytes, native, &mut prev, &mut seen);
        rep.rule = "replay of one recorded input".into();
        return;
    }

    let (maxlen, n_random) = match args.tier.as_str() {
        "thorough" => (5, 100_000u64),
        "miri" => (2, 24),
        _ => (4, 10_000),
    };
    let maxlen = args.extra_u64("maxlen", maxlen) as usize;
    let n_random = args.extra_u64("random", n_random);

    // exhaustive over the alphabet
    let mut idx = 0u64;
    for (which, alphabet) in [ALPHABET, ALPHABET2].iter().enumerate() {
    // the interpreter walks the second alphabet one length shorter
    let maxlen = if which == 1 && !native { maxlen.saturating_sub(1) } else { maxlen };
    for len in 0..=maxlen {
        if which == 1 && len == 0 {
            continue;
        }
        let total = (alphabet.len() as u64).pow(len as u32);
        for n in 0..total {
            let my = args.mine(idx);
            idx += 1;
            if !my {
                continue;
            }
            let mut x = n;
            let input: Vec<u8> = (0..len)
                .map(|_| {
                    let b = alphabet[(x % 12) as usize];
                    x /= 12;
                    b
                })
                .collect();
            report(rep, &input, native, &mut prev, &mut seen);
            rep.distinct_counted += 1;
            rep.sample_spread(|| json!({"bytes_hex": format!("{input:02x?}"), "valid": std::str::from_utf8(&input).is_ok()}));
        }
    }
    }
    rep.add("exhaustive_inputs_all_shards", idx);
    rep.max("max_exhaustive_len", maxlen as u64);

    // random longer inputs: valid text of mixed widths, with and without one corrupted byte
    let mut rng = Rng::new(args.seed ^ 0xC20).fork(args.shard);
    let pool = ['a', 'Z', '\u{7f}', 'é', 'ß', '€', '→', '😀', '𝄞', '\u{0}', '\n', '\u{80}', '¿', '\u{7ff}', '\u{800}', '\u{ffff}', '\u{10000}', '\u{10ffff}', '\u{fffd}'];
    for i in 0..n_random {
        if !args.mine(i) {
            continue;
        }
        let n = 1 + rng.usize(if native { 12 } else { 5 });
        let mut s = String::new();
        for _ in 0..n {
            s.push(*rng.pick(&pool));
        }
        let mut bytes = s.into_bytes();
        if bytes.len() > 8 {
            bytes.truncate(8 + rng.usize(bytes.len() - 8 + 1)); // may cut a char: invalid tail
        }
        if rng.chance(1, 3) {
            let k = rng.usize(bytes.len());
            bytes[k] = *rng.pick(&[0xFFu8, 0x80, 0xC0, 0xED, 0xA0, 0xF4, 0x90]);
        }
        report(rep, &bytes, native, &mut prev, &mut seen);
        rep.nontrivial(fnv(&bytes));
        if i < 2 {
            rep.sample(|| json!({"bytes_hex": format!("{bytes:02x?}"), "kind": "random"}));
        }
    }

    rep.exhaustive = true;
    rep.rule = format!(
        "every byte string of length <= {maxlen} over {{'A',7F,C3,A9,E2,82,AC,F0,9F,98,80,FF}} and over the class-boundary bytes {{'A',80,BF,C2,DF,E0,A0,EF,F0,90,F4,8F}} through every constructor \
         (&[u8], Vec<u8>, Bytes, Bytes window into a larger shared buffer, BytesMut, [u8;N], &[u8;N]; for valid ones also &str, String, Box<str>, from_static, new/default); \
         for each produced value: str::from_utf8 invariant, Deref/Borrow/AsRef/Eq/Hash/Display/Debug/to_string/String::from/into_bytes parity, \
         split_at at every index 0..len+1 with panic parity (recursively on both halves, one level, for values of <= 5 bytes), slice_ref of every char-boundary sub-slice, foreign equal-content slice must panic, \
         Ord/Eq/Hash-equality against a sliding window of 24 earlier valid inputs; plus random multi-width strings up to 12 chars with truncation / one corrupted byte. \
         Every enumerated input is distinct by construction and counted as non-trivial (each exercises at least the constructor-acceptance oracle); random inputs de-duplicated by hash."
    );
    rep.add("obs_valid_inputs", seen.valid_inputs);
    rep.add("obs_invalid_inputs", seen.invalid_inputs);
    rep.add("obs_multibyte_valid_inputs", seen.multibyte_inputs);
    rep.add("obs_constructor_accepts", seen.constructor_accepts);
    rep.add("obs_constructor_rejects", seen.constructor_rejects);
    rep.add("obs_values_checked", seen.values_checked);
    rep.add("obs_splits_ok", seen.splits_ok);
    rep.add("obs_splits_panic_parity", seen.splits_panicked);
    rep.add("obs_slice_refs", seen.slice_refs);
    rep.add("obs_foreign_slice_panics", seen.foreign_slice_panics);
    rep.add("obs_ord_pairs", seen.ord_pairs);
    rep.add("obs_format_spec_comparisons", seen.format_specs);
    rep.add("obs_shared_storage_comparisons", seen.shared_storage_comparisons);
    rep.add("obs_serde_round_trips", seen.serde_round_trips);
    rep.add("obs_serde_documents_accepted", seen.serde_documents_accepted);
    rep.add("obs_serde_documents_rejected", seen.serde_documents_rejected);
}
