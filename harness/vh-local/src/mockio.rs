//! Scripted transport for C13 / C14: an `AsyncRead + AsyncWrite` whose every
//! result is dictated by a script and which records everything it sees.

use std::{
    collections::VecDeque,
    io,
    pin::Pin,
    task::{Context, Poll, Waker},
};

use tokio::io::{AsyncRead, AsyncWrite, ReadBuf};

#[derive(Clone, Copy, Debug, PartialEq, Eq)]
pub enum ReadStep {
    /// hand out up to k bytes of the stream
    Data(usize),
    Pending,
    Err(io::ErrorKind),
}

#[derive(Clone, Copy, Debug, PartialEq, Eq)]
pub enum WriteStep {
    /// accept up to k bytes
    Accept(usize),
    /// accept everything offered except the last k bytes (at least one byte): leaves a short tail behind
    AllBut(usize),
    Pending,
    Zero,
    Err(io::ErrorKind),
}

#[derive(Clone, Copy, Debug, PartialEq, Eq)]
pub enum CtlStep {
    Ok,
    Pending,
    Err(io::ErrorKind),
}

#[derive(Default)]
pub struct MockIo {
    // ---- read side
    pub rdata: Vec<u8>,
    pub rpos: usize,
    pub rscript: VecDeque<ReadStep>,
    pub read_waker: Option<Waker>,
    pub read_calls: u64,
    pub read_pendings: u64,
    pub read_errors: u64,
    pub eof_reads: u64,
    pub no_room_reads: u64,
    /// result of the most recent poll_read: 'D'ata, 'P'ending, 'E'rr, 'Z' eof
    pub last_read: char,
    // ---- write side
    pub wscript: VecDeque<WriteStep>,
    pub flush_script: VecDeque<CtlStep>,
    pub shutdown_script: VecDeque<CtlStep>,
    pub written: Vec<u8>,
    pub write_waker: Option<Waker>,
    pub write_calls: u64,
    pub write_pendings: u64,
    pub short_writes: u64,
    pub zero_writes: u64,
    pub write_errors: u64,
    pub ctl_errors: u64,
    pub flush_calls: u64,
    pub shutdown_calls: u64,
    /// `written.len()` at the time of the last successful poll_flush / poll_shutdown
    pub flushed_at: Option<usize>,
    pub shutdown_at: Option<usize>,
    /// did any transport call of the current Framed call return Pending / which
    pub pending_in_call: bool,
    pub empty_write_calls: u64,
}

impl MockIo {
    pub fn reader(data: Vec<u8>, script: Vec<ReadStep>) -> MockIo {
        MockIo {
            rdata: data,
            rscript: script.into(),
            last_read: '-',
            ..Default::default()
        }
    }

    pub fn writer(script: Vec<WriteStep>) -> MockIo {
        MockIo {
            wscript: script.into(),
            last_read: '-',
            ..Default::default()
        }
    }

    pub fn begin_call(&mut self) {
        self.pending_in_call = false;
    }
}

impl AsyncRead for MockIo {
    fn poll_read(mut self: Pin<&mut Self>, cx: &mut Context<'_>, buf: &mut ReadBuf<'_>) -> Poll<io::Result<()>> {
        let this = &mut *self;
        this.read_calls += 1;
        let step = match this.rscript.pop_front() {
            Some(s) => s,
            None => ReadStep::Data(usize::MAX),
        };
        match step {
            ReadStep::Pending => {
                this.read_pendings += 1;
                this.read_waker = Some(cx.waker().clone());
                this.pending_in_call = true;
                this.last_read = 'P';
                Poll::Pending
            }
            ReadStep::Err(k) => {
                this.read_errors += 1;
                this.last_read = 'E';
                Poll::Ready(Err(io::Error::new(k, "injected read error")))
            }
            ReadStep::Data(k) => {
                let left = this.rdata.len() - this.rpos;
                let want = k.min(left);
                let n = want.min(buf.remaining());
                if n == 0 && want > 0 {
                    // no room in the caller's buffer: indistinguishable from EOF for the caller
                    this.no_room_reads += 1;
                }
                buf.put_slice(&this.rdata[this.rpos..this.rpos + n]);
                this.rpos += n;
                if n < want && k != usize::MAX {
                    // caller's buffer was smaller than the scripted chunk: the rest stays scripted
                    this.rscript.push_front(ReadStep::Data(want - n));
                }
                if want == 0 {
                    this.eof_reads += 1;
                    this.last_read = 'Z';
                } else {
                    this.last_read = 'D';
                }
                Poll::Ready(Ok(()))
            }
        }
    }
}

fn ctl(step: Option<CtlStep>) -> CtlStep {
    step.unwrap_or(CtlStep::Ok)
}

impl AsyncWrite for MockIo {
    fn poll_write(mut self: Pin<&mut Self>, cx: &mut Context<'_>, buf: &[u8]) -> Poll<io::Result<usize>> {
        let this = &mut *self;
        this.write_calls += 1;
        if buf.is_empty() {
            this.empty_write_calls += 1;
        }
        let step = this.wscript.pop_front().unwrap_or(WriteStep::Accept(usize::MAX));
        match step {
            WriteStep::Pending => {
                this.write_pendings += 1;
                this.write_waker = Some(cx.waker().clone());
                this.pending_in_call = true;
                Poll::Pending
            }
            WriteStep::Zero => {
                this.zero_writes += 1;
                Poll::Ready(Ok(0))
            }
            WriteStep::Err(k) => {
                this.write_errors += 1;
                Poll::Ready(Err(io::Error::new(k, "injected write error")))
            }
            WriteStep::Accept(_) | WriteStep::AllBut(_) => {
                let k = match step {
                    WriteStep::AllBut(t) => buf.len().saturating_sub(t).max(1),
                    WriteStep::Accept(k) => k,
                    _ => unreachable!(),
                };
                let n = k.min(buf.len());
                if n < buf.len() {
                    this.short_writes += 1;
                }
                this.written.extend_from_slice(&buf[..n]);
                Poll::Ready(Ok(n))
            }
        }
    }

    fn poll_flush(mut self: Pin<&mut Self>, cx: &mut Context<'_>) -> Poll<io::Result<()>> {
        let this = &mut *self;
        this.flush_calls += 1;
        match ctl(this.flush_script.pop_front()) {
            CtlStep::Ok => {
                this.flushed_at = Some(this.written.len());
                Poll::Ready(Ok(()))
            }
            CtlStep::Pending => {
                this.write_waker = Some(cx.waker().clone());
                this.pending_in_call = true;
                Poll::Pending
            }
            CtlStep::Err(k) => {
                this.ctl_errors += 1;
                Poll::Ready(Err(io::Error::new(k, "injected flush error")))
            }
        }
    }

    fn poll_shutdown(mut self: Pin<&mut Self>, cx: &mut Context<'_>) -> Poll<io::Result<()>> {
        let this = &mut *self;
        this.shutdown_calls += 1;
        match ctl(this.shutdown_script.pop_front()) {
            CtlStep::Ok => {
                this.shutdown_at = Some(this.written.len());
                Poll::Ready(Ok(()))
            }
            CtlStep::Pending => {
                this.write_waker = Some(cx.waker().clone());
                this.pending_in_call = true;
                Poll::Pending
            }
            CtlStep::Err(k) => {
                this.ctl_errors += 1;
                Poll::Ready(Err(io::Error::new(k, "injected shutdown error")))
            }
        }
    }
}
