//! C11 / C12 — actix-service combinators vs a reference interpreter, with
//! leaf-side poll-discipline monitors.
//!
//! One run serves both properties: C11 compares results, per-leaf call logs
//! and mapper invocations with the reference; C12 checks readiness
//! conjunction, waker propagation, no poll after completion and no lost
//! wake-up through scripted leaves driven by a strict manual executor.
//! Signatures are prefixed C11:/C12: and the driver keeps those of the
//! property it was asked for.

use std::{
    cell::RefCell,
    future::Future,
    pin::Pin,
    rc::Rc,
    sync::Arc,
    task::{Context, Poll, Waker},
};

use actix_service::{
    apply, apply_cfg, apply_cfg_factory, apply_fn, apply_fn_factory, boxed, fn_factory, fn_factory_with_config, fn_service, map_config,
    unit_config, Service, ServiceExt, ServiceFactory, ServiceFactoryExt, Transform,
};
use vh_core::{
    catch,
    exec::{new_waker, reset_wakers, waker_id},
    fnv_str, json, Args, Report, Rng, Value,
};

type BoxSvc = boxed::BoxService<u32, u32, u32>;
type BoxFac = boxed::BoxServiceFactory<u32, u32, u32, u32, u32>;
type LocalBoxFut<T> = Pin<Box<dyn Future<Output = T>>>;

// ------------------------------------------------------------------ tree descriptions

#[derive(Clone, Debug, PartialEq, Eq)]
pub struct LeafSpec {
    pub id: u8,
    /// poll_ready returns Pending this many times, then `ready_err` / Ok
    pub ready_pending: u8,
    pub ready_err: Option<u32>,
    /// the call future returns Pending this many times
    pub call_pending: u8,
    pub call_err: bool,
}

#[derive(Clone, Copy, Debug, PartialEq, Eq)]
pub enum ApplyKind {
    Pass,
    PrePost,
    ShortOdd,
    Twice,
    AddCfg(u32),
}

#[derive(Clone, Copy, Debug, PartialEq, Eq)]
pub enum WrapKind {
    Boxed,
    RcBoxed,
    Rc,
    RefCell,
    Box,
}

#[derive(Clone, Debug, PartialEq, Eq)]
pub enum Node {
    Leaf(LeafSpec),
    /// `fn_service` closure: always ready, Ok(req + add)
    FnLeaf(u32),
    AndThen(Box<Node>, Box<Node>),
    Map(Box<Node>, u8),
    MapErr(Box<Node>, u8),
    ApplyFn(Box<Node>, ApplyKind),
    Wrap(Box<Node>, WrapKind),
    /// service produced by the harness transform `tid`
    Transformed(Box<Node>, u8),
}

#[derive(Clone, Debug, PartialEq, Eq)]
pub struct TSpec {
    pub tid: u8,
    pub delay: u8,
    pub err: bool,
    pub map_init_err: Option<u8>,
    /// 0 plain, 1 Rc, 2 Arc
    pub wrap: u8,
}

#[derive(Clone, Debug, PartialEq, Eq)]
pub enum FNode {
    /// leaf factory: after `delay` Pending polls yields the service built from `node`, or Err
    FLeaf { fid: u8, delay: u8, err: bool, node: Node },
    FAndThen(Box<FNode>, Box<FNode>),
    FMap(Box<FNode>, u8),
    FMapErr(Box<FNode>, u8),
    FMapInitErr(Box<FNode>, u8),
    FMapConfig(Box<FNode>, u8),
    /// unit_config(map_config(inner, |()| 70 + k))
    FUnit(Box<FNode>, u8),
    FApplyFn(Box<FNode>, ApplyKind),
    /// apply_cfg(service(node), f): f's future has `delay`, may fail
    FApplyCfg { node: Node, delay: u8, err: bool },
    /// apply_cfg_factory(map_config(leaf factory, |()| 70 + k), f)
    FApplyCfgFactory { inner: Box<FNode>, k: u8, delay: u8, err: bool },
    FFnFactory(Node),
    FFnFactoryCfg(Node),
    FFnService(u32),
    /// 0 boxed::factory, 1 Rc, 2 Arc
    FWrap(Box<FNode>, u8),
    FApplyTransform(TSpec, Box<FNode>),
}

pub fn leaf_fn(id: u8, req: u32) -> u32 {
    req.wrapping_mul(3).wrapping_add(id as u32 + 1)
}
pub fn leaf_err(id: u8) -> u32 {
    900 + id as u32
}
fn map_fn(k: u8, x: u32) -> u32 {
    x.wrapping_mul(2).wrapping_add(k as u32)
}
fn map_err_fn(k: u8, e: u32) -> u32 {
    e.wrapping_add(1000 * (k as u32 + 1))
}
fn map_init_err_fn(k: u8, e: u32) -> u32 {
    e.wrapping_add(5000 * (k as u32 + 1))
}
fn map_cfg_fn(k: u8, c: u32) -> u32 {
    c.wrapping_mul(5).wrapping_add(k as u32)
}
fn leaf_init_err(fid: u8) -> u32 {
    700 + fid as u32
}
fn t_init_err(tid: u8) -> u32 {
    800 + tid as u32
}

// ------------------------------------------------------------------ shared monitor state

/// Semantic events: (kind, id, arg). c=leaf call, m=map, e=map_err, n=new_service, i=map_init_err,
/// g=map_config, t=new_transform, a=apply_cfg fn, f=fn factory, s=fn_service call
type Ev = (char, u8, u32);

#[derive(Default)]
struct LeafState {
    ready_left: u8,
    ready_err: Option<u32>,
    ready_waker: Option<Waker>,
    /// (round, waker id, outcome 'P'/'R'/'E')
    ready_polls: Vec<(u64, Option<u64>, char)>,
    /// calls made although the latest readiness answer of this leaf was an error
    called_after_ready_err: u32,
}

#[derive(Default)]
struct FutState {
    owner: String,
    pending_left: u8,
    done: bool,
    /// dropped before completion (cancelled by its owner)
    cancelled: bool,
    waker: Option<Waker>,
    polls: Vec<(u64, Option<u64>, char)>,
    polled_after_done: u32,
}

#[derive(Default)]
struct Mon {
    log: Vec<Ev>,
    round: u64,
    leaves: Vec<(u8, LeafState)>,
    futs: Vec<FutState>,
}

thread_local! {
    static MON: RefCell<Mon> = RefCell::new(Mon::default());
}

fn mon<R>(f: impl FnOnce(&mut Mon) -> R) -> R {
    MON.with(|m| f(&mut m.borrow_mut()))
}

fn ev(k: char, id: u8, arg: u32) {
    mon(|m| m.log.push((k, id, arg)));
}

impl Mon {
    fn leaf(&mut self, id: u8) -> &mut LeafState {
        let pos = self.leaves.iter().position(|(i, _)| *i == id).expect("unregistered leaf");
        &mut self.leaves[pos].1
    }
}

// ------------------------------------------------------------------ scripted participants

/// Scripted future: Pending^k then `out`. Records every poll and polls after completion.
struct ScriptFut<T> {
    slot: usize,
    out: Option<T>,
}

impl<T> Unpin for ScriptFut<T> {}

fn script_fut<T>(owner: String, pending: u8, out: T) -> ScriptFut<T> {
    let slot = mon(|m| {
        m.futs.push(FutState {
            owner,
            pending_left: pending,
            ..Default::default()
        });
        m.futs.len() - 1
    });
    ScriptFut { slot, out: Some(out) }
}

impl<T> Drop for ScriptFut<T> {
    fn drop(&mut self) {
        let slot = self.slot;
        let _ = MON.try_with(|m| {
            if let Ok(mut m) = m.try_borrow_mut() {
                if let Some(f) = m.futs.get_mut(slot) {
                    if !f.done {
                        f.cancelled = true;
                    }
                }
            }
        });
    }
}

impl<T> Future for ScriptFut<T> {
    type Output = T;
    fn poll(mut self: Pin<&mut Self>, cx: &mut Context<'_>) -> Poll<T> {
        let wid = waker_id(cx.waker());
        let slot = self.slot;
        let ready = mon(|m| {
            let round = m.round;
            let f = &mut m.futs[slot];
            if f.done {
                f.polled_after_done += 1;
                return None;
            }
            if f.pending_left > 0 {
                f.pending_left -= 1;
                f.waker = Some(cx.waker().clone());
                f.polls.push((round, wid, 'P'));
                Some(false)
            } else {
                f.done = true;
                f.waker = None;
                f.polls.push((round, wid, 'R'));
                Some(true)
            }
        });
        match ready {
            Some(true) => Poll::Ready(self.out.take().expect("output")),
            _ => Poll::Pending,
        }
    }
}

#[derive(Clone)]
struct LeafSvc {
    spec: LeafSpec,
}

impl LeafSvc {
    fn new(spec: &LeafSpec) -> LeafSvc {
        mon(|m| {
            m.leaves.push((
                spec.id,
                LeafState {
                    ready_left: spec.ready_pending,
                    ready_err: spec.ready_err,
                    ..Default::default()
                },
            ))
        });
        LeafSvc { spec: spec.clone() }
    }
}

impl Service<u32> for LeafSvc {
    type Response = u32;
    type Error = u32;
    type Future = ScriptFut<Result<u32, u32>>;

    fn poll_ready(&self, cx: &mut Context<'_>) -> Poll<Result<(), u32>> {
        let wid = waker_id(cx.waker());
        let id = self.spec.id;
        mon(|m| {
            let round = m.round;
            let l = m.leaf(id);
            if l.ready_left > 0 {
                l.ready_left -= 1;
                l.ready_waker = Some(cx.waker().clone());
                l.ready_polls.push((round, wid, 'P'));
                Poll::Pending
            } else if let Some(e) = l.ready_err {
                l.ready_polls.push((round, wid, 'E'));
                Poll::Ready(Err(e))
            } else {
                l.ready_waker = None;
                l.ready_polls.push((round, wid, 'R'));
                Poll::Ready(Ok(()))
            }
        })
    }

    fn call(&self, req: u32) -> Self::Future {
        let id = self.spec.id;
        ev('c', id, req);
        mon(|m| {
            let l = m.leaf(id);
            if l.ready_polls.last().map(|p| p.2) == Some('E') {
                l.called_after_ready_err += 1;
            }
        });
        let out = if self.spec.call_err { Err(leaf_err(id)) } else { Ok(leaf_fn(id, req)) };
        script_fut(format!("leaf{id}.call"), self.spec.call_pending, out)
    }
}

fn wrap_fn<S>(kind: ApplyKind) -> impl Fn(u32, &S) -> LocalBoxFut<Result<u32, u32>> + Clone
where
    S: Service<u32, Response = u32, Error = u32> + 'static,
    S::Future: 'static,
{
    move |req, svc: &S| match kind {
        ApplyKind::Pass => Box::pin(svc.call(req)),
        ApplyKind::PrePost => {
            let fut = svc.call(req.wrapping_add(1));
            Box::pin(async move { fut.await.map(|x| x.wrapping_add(7)) })
        }
        ApplyKind::ShortOdd => {
            if req % 2 == 1 {
                Box::pin(async { Err(555) })
            } else {
                Box::pin(svc.call(req))
            }
        }
        ApplyKind::Twice => {
            // `svc` is only borrowed for the duration of this call, so both inner calls are issued
            // up-front and their futures awaited in order
            let first = svc.call(req);
            let second = svc.call(req.wrapping_add(100));
            Box::pin(async move {
                let a = first.await?;
                let b = second.await?;
                Ok(a.wrapping_add(b))
            })
        }
        ApplyKind::AddCfg(c) => {
            let fut = svc.call(req);
            Box::pin(async move { fut.await.map(|x| x.wrapping_add(c)) })
        }
    }
}

/// Harness transform: wraps a service; the wrapper forwards readiness, xors the request and adds to the response.
#[derive(Clone)]
struct HTransform {
    spec: TSpec,
}

struct HTransformed<S> {
    inner: S,
    tid: u8,
}

impl<S> Service<u32> for HTransformed<S>
where
    S: Service<u32, Response = u32, Error = u32>,
    S::Future: 'static,
{
    type Response = u32;
    type Error = u32;
    type Future = LocalBoxFut<Result<u32, u32>>;

    actix_service::forward_ready!(inner);

    fn call(&self, req: u32) -> Self::Future {
        let tid = self.tid;
        let fut = self.inner.call(req ^ 0x10);
        Box::pin(async move { fut.await.map(|x| x.wrapping_add(100 + tid as u32)) })
    }
}

impl<S> Transform<S, u32> for HTransform
where
    S: Service<u32, Response = u32, Error = u32> + 'static,
    S::Future: 'static,
{
    type Response = u32;
    type Error = u32;
    type Transform = HTransformed<S>;
    type InitError = u32;
    type Future = ScriptFut<Result<HTransformed<S>, u32>>;

    fn new_transform(&self, service: S) -> Self::Future {
        let tid = self.spec.tid;
        ev('t', tid, 0);
        let out = if self.spec.err { Err(t_init_err(tid)) } else { Ok(HTransformed { inner: service, tid }) };
        script_fut(format!("transform{tid}.new_transform"), self.spec.delay, out)
    }
}

// ------------------------------------------------------------------ building the real thing

pub fn build(node: &Node) -> BoxSvc {
    match node {
        Node::Leaf(spec) => boxed::service(LeafSvc::new(spec)),
        Node::FnLeaf(add) => {
            let add = *add;
            // fn_service(..) with Cfg = () is itself a Service
            boxed::service(fn_service::<_, _, u32, u32, u32, ()>(move |req: u32| {
                ev('s', 0, req);
                async move { Ok::<u32, u32>(req.wrapping_add(add)) }
            }))
        }
        Node::AndThen(a, b) => boxed::service(build(a).and_then(build(b))),
        Node::Map(a, k) => {
            let k = *k;
            boxed::service(build(a).map(move |x| {
                ev('m', k, x);
                map_fn(k, x)
            }))
        }
        Node::MapErr(a, k) => {
            let k = *k;
            boxed::service(build(a).map_err(move |e| {
                ev('e', k, e);
                map_err_fn(k, e)
            }))
        }
        Node::ApplyFn(a, kind) => boxed::service(apply_fn(build(a), wrap_fn::<BoxSvc>(*kind))),
        Node::Wrap(a, w) => match w {
            WrapKind::Boxed => boxed::service(build(a)),
            WrapKind::RcBoxed => boxed::service(boxed::rc_service(build(a))),
            WrapKind::Rc => boxed::service(Rc::new(build(a))),
            WrapKind::RefCell => boxed::service(RefCell::new(build(a))),
            WrapKind::Box => boxed::service(Box::new(build(a))),
        },
        Node::Transformed(a, tid) => boxed::service(HTransformed { inner: build(a), tid: *tid }),
    }
}

struct LeafFactory {
    fid: u8,
    delay: u8,
    err: bool,
    node: Node,
}

impl ServiceFactory<u32> for LeafFactory {
    type Response = u32;
    type Error = u32;
    type Config = u32;
    type Service = BoxSvc;
    type InitError = u32;
    type Future = ScriptFut<Result<BoxSvc, u32>>;

    fn new_service(&self, cfg: u32) -> Self::Future {
        ev('n', self.fid, cfg);
        let out = if self.err { Err(leaf_init_err(self.fid)) } else { Ok(build(&self.node)) };
        script_fut(format!("factory{}.new_service", self.fid), self.delay, out)
    }
}

fn unit_adapter(inner: BoxFac, k: u8) -> impl ServiceFactory<u32, Config = (), Response = u32, Error = u32, InitError = u32, Service = BoxSvc, Future = LocalBoxFut<Result<BoxSvc, u32>>> {
    map_config(inner, move |()| {
        ev('g', 100 + k, 0);
        70 + k as u32
    })
}

pub fn fbuild(f: &FNode) -> BoxFac {
    match f {
        FNode::FLeaf { fid, delay, err, node } => boxed::factory(LeafFactory {
            fid: *fid,
            delay: *delay,
            err: *err,
            node: node.clone(),
        }),
        FNode::FAndThen(a, b) => boxed::factory(fbuild(a).and_then(fbuild(b))),
        FNode::FMap(a, k) => {
            let k = *k;
            boxed::factory(fbuild(a).map(move |x| {
                ev('m', k, x);
                map_fn(k, x)
            }))
        }
        FNode::FMapErr(a, k) => {
            let k = *k;
            boxed::factory(fbuild(a).map_err(move |e| {
                ev('e', k, e);
                map_err_fn(k, e)
            }))
        }
        FNode::FMapInitErr(a, k) => {
            let k = *k;
            boxed::factory(fbuild(a).map_init_err(move |e| {
                ev('i', k, e);
                map_init_err_fn(k, e)
            }))
        }
        FNode::FMapConfig(a, k) => {
            let k = *k;
            boxed::factory(map_config(fbuild(a), move |c: u32| {
                ev('g', k, c);
                map_cfg_fn(k, c)
            }))
        }
        FNode::FUnit(a, k) => boxed::factory(unit_config::<_, _, u32, u32>(unit_adapter(fbuild(a), *k))),
        FNode::FApplyFn(a, kind) => boxed::factory(apply_fn_factory(fbuild(a), wrap_fn::<BoxSvc>(*kind))),
        FNode::FApplyCfg { node, delay, err } => {
            let (delay, err) = (*delay, *err);
            let svc: Rc<BoxSvc> = Rc::new(build(node));
            boxed::factory(apply_cfg(svc, move |cfg: u32, s: &Rc<BoxSvc>| {
                ev('a', 0, cfg);
                let out: Result<BoxSvc, u32> = if err {
                    Err(777)
                } else {
                    Ok(boxed::service(apply_fn(s.clone(), wrap_fn::<Rc<BoxSvc>>(ApplyKind::AddCfg(cfg)))))
                };
                script_fut("apply_cfg.f".to_string(), delay, out)
            }))
        }
        FNode::FApplyCfgFactory { inner, k, delay, err } => {
            let (delay, err) = (*delay, *err);
            boxed::factory(apply_cfg_factory(unit_adapter(fbuild(inner), *k), move |cfg: u32, s: &BoxSvc| {
                ev('a', 1, cfg);
                // the configured service: a fresh fn service parameterised by cfg, plus one probe call on the inner service
                let probe = s.call(cfg);
                let out = script_fut("apply_cfg_factory.f".to_string(), delay, ());
                async move {
                    out.await;
                    let p = probe.await;
                    if err {
                        return Err(778);
                    }
                    let base = p.unwrap_or(424242);
                    Ok::<BoxSvc, u32>(boxed::service(fn_service::<_, _, u32, u32, u32, ()>(move |req: u32| {
                        ev('s', 0, req);
                        async move { Ok::<u32, u32>(req.wrapping_add(base)) }
                    })))
                }
            }))
        }
        FNode::FFnFactory(node) => {
            let node = node.clone();
            boxed::factory(fn_factory::<_, u32, BoxSvc, u32, _, u32>(move || {
                ev('f', 0, 0);
                let svc = build(&node);
                async move { Ok(svc) }
            }))
        }
        FNode::FFnFactoryCfg(node) => {
            let node = node.clone();
            boxed::factory(fn_factory_with_config(move |cfg: u32| {
                ev('f', 1, cfg);
                let svc: BoxSvc = boxed::service(apply_fn(build(&node), wrap_fn::<BoxSvc>(ApplyKind::AddCfg(cfg))));
                async move { Ok::<BoxSvc, u32>(svc) }
            }))
        }
        FNode::FFnService(add) => {
            let add = *add;
            // fn_service's InitError is (): it can never fail, the mapper only converts the type
            boxed::factory(
                fn_service::<_, _, u32, u32, u32, u32>(move |req: u32| {
                    ev('s', 0, req);
                    async move { Ok::<u32, u32>(req.wrapping_add(add)) }
                })
                .map_init_err(|()| 0u32),
            )
        }
        FNode::FWrap(a, w) => match w {
            0 => boxed::factory(fbuild(a)),
            1 => boxed::factory(Rc::new(fbuild(a))),
            _ => boxed::factory(Arc::new(fbuild(a))),
        },
        FNode::FApplyTransform(t, a) => {
            let ht = HTransform { spec: t.clone() };
            let inner = fbuild(a);
            // TransformExt::map_init_err is only implemented for transforms of themselves
            // (`impl TransformExt<T, Req> for T where T: Transform<T, Req>`), so it cannot be applied here.
            match (t.map_init_err, t.wrap) {
                (None, 1) => boxed::factory(apply(Rc::new(ht), inner)),
                (None, 2) => boxed::factory(apply(Arc::new(ht), inner)),
                _ => boxed::factory(apply(ht, inner)),
            }
        }
    }
}

// ------------------------------------------------------------------ reference interpreter

/// Evaluate a call on the composed service; appends the semantic events in order.
pub fn eval(node: &Node, req: u32, log: &mut Vec<Ev>) -> Result<u32, u32> {
    match node {
        Node::Leaf(s) => {
            log.push(('c', s.id, req));
            if s.call_err {
                Err(leaf_err(s.id))
            } else {
                Ok(leaf_fn(s.id, req))
            }
        }
        Node::FnLeaf(add) => {
            log.push(('s', 0, req));
            Ok(req.wrapping_add(*add))
        }
        Node::AndThen(a, b) => {
            let r = eval(a, req, log)?;
            eval(b, r, log)
        }
        Node::Map(a, k) => eval(a, req, log).map(|x| {
            log.push(('m', *k, x));
            map_fn(*k, x)
        }),
        Node::MapErr(a, k) => eval(a, req, log).map_err(|e| {
            log.push(('e', *k, e));
            map_err_fn(*k, e)
        }),
        Node::ApplyFn(a, kind) => match kind {
            ApplyKind::Pass => eval(a, req, log),
            ApplyKind::PrePost => eval(a, req.wrapping_add(1), log).map(|x| x.wrapping_add(7)),
            ApplyKind::ShortOdd => {
                if req % 2 == 1 {
                    Err(555)
                } else {
                    eval(a, req, log)
                }
            }
            ApplyKind::Twice => {
                // both calls are issued up-front (see wrap_fn) and awaited in order; Twice is only
                // generated directly over a leaf, where a call contributes exactly one event, at issue time
                let r1 = eval(a, req, log);
                let r2 = eval(a, req.wrapping_add(100), log);
                let a = r1?;
                let b = r2?;
                Ok(a.wrapping_add(b))
            }
            ApplyKind::AddCfg(c) => eval(a, req, log).map(|x| x.wrapping_add(*c)),
        },
        Node::Wrap(a, _) => eval(a, req, log),
        Node::Transformed(a, tid) => eval(a, req ^ 0x10, log).map(|x| x.wrapping_add(100 + *tid as u32)),
    }
}

fn leaves<'a>(node: &'a Node, out: &mut Vec<&'a LeafSpec>) {
    match node {
        Node::Leaf(s) => out.push(s),
        Node::FnLeaf(_) => {}
        Node::AndThen(a, b) => {
            leaves(a, out);
            leaves(b, out);
        }
        Node::Map(a, _) | Node::MapErr(a, _) | Node::ApplyFn(a, _) | Node::Wrap(a, _) | Node::Transformed(a, _) => leaves(a, out),
    }
}

/// Readiness error of leaf `id` as seen at the root (through the map_err nodes on its path).
fn mapped_ready_err(node: &Node, id: u8, e: u32) -> Option<u32> {
    match node {
        Node::Leaf(s) => (s.id == id).then_some(e),
        Node::FnLeaf(_) => None,
        Node::AndThen(a, b) => mapped_ready_err(a, id, e).or_else(|| mapped_ready_err(b, id, e)),
        Node::MapErr(a, k) => mapped_ready_err(a, id, e).map(|x| map_err_fn(*k, x)),
        Node::Map(a, _) | Node::ApplyFn(a, _) | Node::Wrap(a, _) | Node::Transformed(a, _) => mapped_ready_err(a, id, e),
    }
}

pub struct InitRef {
    /// root poll (0-based, relative to the first poll) at which the init future completes
    round: u64,
    /// Ok(service description) or the set of acceptable init errors
    out: Result<Node, Vec<u32>>,
}

/// Reference for factory initialisation. `evs` collects (round, event).
pub fn finit(f: &FNode, cfg: u32, start: u64, evs: &mut Vec<(u64, Ev)>) -> InitRef {
    match f {
        FNode::FLeaf { fid, delay, err, node } => {
            evs.push((start, ('n', *fid, cfg)));
            InitRef {
                round: start + *delay as u64,
                out: if *err { Err(vec![leaf_init_err(*fid)]) } else { Ok(node.clone()) },
            }
        }
        FNode::FAndThen(a, b) => {
            let ra = finit(a, cfg, start, evs);
            let rb = finit(b, cfg, start, evs);
            match (ra.out, rb.out) {
                (Ok(x), Ok(y)) => InitRef {
                    round: ra.round.max(rb.round),
                    out: Ok(Node::AndThen(Box::new(x), Box::new(y))),
                },
                (Err(e), Ok(_)) => InitRef { round: ra.round, out: Err(e) },
                (Ok(_), Err(e)) => InitRef { round: rb.round, out: Err(e) },
                (Err(ea), Err(eb)) => {
                    if ra.round < rb.round {
                        InitRef { round: ra.round, out: Err(ea) }
                    } else if rb.round < ra.round {
                        InitRef { round: rb.round, out: Err(eb) }
                    } else {
                        // same poll: either is "first"
                        let mut v = ea;
                        v.extend(eb);
                        InitRef { round: ra.round, out: Err(v) }
                    }
                }
            }
        }
        FNode::FMap(a, k) => {
            let r = finit(a, cfg, start, evs);
            InitRef { round: r.round, out: r.out.map(|n| Node::Map(Box::new(n), *k)) }
        }
        FNode::FMapErr(a, k) => {
            let r = finit(a, cfg, start, evs);
            InitRef { round: r.round, out: r.out.map(|n| Node::MapErr(Box::new(n), *k)) }
        }
        FNode::FMapInitErr(a, k) => {
            let r = finit(a, cfg, start, evs);
            let round = r.round;
            InitRef {
                round,
                out: r.out.map_err(|es| {
                    // the mapper runs once on whichever error surfaced
                    es.into_iter().map(|e| map_init_err_fn(*k, e)).collect()
                }),
            }
        }
        FNode::FMapConfig(a, k) => {
            evs.push((start, ('g', *k, cfg)));
            finit(a, map_cfg_fn(*k, cfg), start, evs)
        }
        FNode::FUnit(a, k) => {
            evs.push((start, ('g', 100 + *k, 0)));
            finit(a, 70 + *k as u32, start, evs)
        }
        FNode::FApplyFn(a, kind) => {
            let r = finit(a, cfg, start, evs);
            InitRef { round: r.round, out: r.out.map(|n| Node::ApplyFn(Box::new(n), *kind)) }
        }
        FNode::FApplyCfg { node, delay, err } => {
            evs.push((start, ('a', 0, cfg)));
            InitRef {
                round: start + *delay as u64,
                out: if *err { Err(vec![777]) } else { Ok(Node::ApplyFn(Box::new(node.clone()), ApplyKind::AddCfg(cfg))) },
            }
        }
        FNode::FApplyCfgFactory { inner, k, delay, err } => {
            evs.push((start, ('g', 100 + *k, 0)));
            let r = finit(inner, 70 + *k as u32, start, evs);
            let node = match r.out {
                Err(e) => return InitRef { round: r.round, out: Err(e) },
                Ok(n) => n,
            };
            // stage B: wait for the created service to be ready (inner is a single leaf by construction)
            let Node::Leaf(spec) = &node else { panic!("apply_cfg_factory inner must create a leaf") };
            let ready_round = r.round + spec.ready_pending as u64;
            if let Some(e) = spec.ready_err {
                return InitRef { round: ready_round, out: Err(vec![e]) };
            }
            // stage C: f(cfg, &svc): probe call on the inner service, then the scripted delay
            evs.push((ready_round, ('a', 1, cfg)));
            evs.push((ready_round, ('c', spec.id, cfg)));
            let base = if spec.call_err { 424242 } else { leaf_fn(spec.id, cfg) };
            InitRef {
                round: ready_round + *delay as u64 + spec.call_pending as u64,
                out: if *err { Err(vec![778]) } else { Ok(Node::FnLeaf(base)) },
            }
        }
        FNode::FFnFactory(node) => {
            evs.push((start, ('f', 0, 0)));
            InitRef { round: start, out: Ok(node.clone()) }
        }
        FNode::FFnFactoryCfg(node) => {
            evs.push((start, ('f', 1, cfg)));
            InitRef { round: start, out: Ok(Node::ApplyFn(Box::new(node.clone()), ApplyKind::AddCfg(cfg))) }
        }
        FNode::FFnService(add) => InitRef { round: start, out: Ok(Node::FnLeaf(*add)) },
        FNode::FWrap(a, _) => finit(a, cfg, start, evs),
        FNode::FApplyTransform(t, a) => {
            let r = finit(a, cfg, start, evs);
            let node = match r.out {
                Err(e) => return InitRef { round: r.round, out: Err(e) },
                Ok(n) => n,
            };
            evs.push((r.round, ('t', t.tid, 0)));
            let round = r.round + t.delay as u64;
            if t.err {
                let e = t_init_err(t.tid);
                InitRef { round, out: Err(vec![t.map_init_err.map(|k| map_init_err_fn(k, e)).unwrap_or(e)]) }
            } else {
                InitRef { round, out: Ok(Node::Transformed(Box::new(node), t.tid)) }
            }
        }
    }
}

// ------------------------------------------------------------------ the monitors' driver

pub struct Fail {
    pub sig: String,
    pub desc: String,
}

fn fail<T>(sig: &str, desc: String) -> Result<T, Fail> {
    Err(Fail { sig: sig.to_string(), desc })
}

#[derive(Default)]
pub struct Seen {
    pub ready_rounds: u64,
    pub ready_pending_rounds: u64,
    pub ready_errors: u64,
    pub ready_ok: u64,
    pub calls: u64,
    pub call_pending_polls: u64,
    pub call_ok: u64,
    pub call_err: u64,
    pub events_compared: u64,
    pub waker_checks: u64,
    pub wake_progress_checks: u64,
    pub init_ok: u64,
    pub init_err: u64,
    pub init_pending_polls: u64,
    pub init_ambiguous_errors: u64,
    pub leaf_future_polls: u64,
    pub static_trees: u64,
}

fn reset_monitor() {
    reset_wakers();
    mon(|m| *m = Mon::default());
}

/// After a root poll that returned Pending: every scripted future that is still pending must hold the
/// waker of this poll, and waking those wakers must wake the root waker.
fn check_pending_futures(round: u64, what: &str, root_rec: &vh_core::exec::WakeRec, seen: &mut Seen) -> Result<(), Fail> {
    let (stale, wakers, any_pending_this_round): (Vec<String>, Vec<Waker>, bool) = mon(|m| {
        let mut stale = Vec::new();
        let mut wakers = Vec::new();
        let mut any = false;
        for f in &m.futs {
            if f.done || f.cancelled {
                continue;
            }
            // a future that was created but never polled has legitimately not been reached yet
            if let Some((r, wid, 'P')) = f.polls.last() {
                if *r == round {
                    any = true;
                }
                if *r != round || *wid != Some(round) {
                    stale.push(format!("{} last polled in round {r} with waker {wid:?}", f.owner));
                }
                if let Some(w) = &f.waker {
                    wakers.push(w.clone());
                }
            }
        }
        // a combinator future may also wait for an inner service's readiness (apply_cfg_factory)
        for (id, l) in &m.leaves {
            if let Some((r, wid, 'P')) = l.ready_polls.last() {
                if *r == round {
                    any = true;
                    if *wid != Some(round) {
                        stale.push(format!("leaf {id} readiness polled with waker {wid:?}"));
                    }
                    if let Some(w) = &l.ready_waker {
                        wakers.push(w.clone());
                    }
                }
            }
        }
        (stale, wakers, any)
    });
    seen.waker_checks += 1;
    if !stale.is_empty() {
        return fail(
            "C12:pending-inner-future-not-polled-with-current-waker",
            format!("{what} returned Pending in round {round} but {}", stale.join("; ")),
        );
    }
    if !any_pending_this_round {
        return fail(
            "C12:pending-without-pending-inner",
            format!("{what} returned Pending in round {round} although no inner future returned Pending in this poll"),
        );
    }
    // inner futures become ready and wake what they were given
    for w in wakers {
        w.wake();
    }
    seen.wake_progress_checks += 1;
    if root_rec.wakes() == 0 {
        return fail("C12:lost-wakeup", format!("{what}: inner futures woke their wakers but the task polling the combinator was not woken (round {round})"));
    }
    Ok(())
}

fn called_after_ready_err() -> Option<u8> {
    mon(|m| m.leaves.iter().find(|(_, l)| l.called_after_ready_err > 0).map(|(id, _)| *id))
}

fn polled_after_done() -> Option<String> {
    mon(|m| m.futs.iter().find(|f| f.polled_after_done > 0).map(|f| f.owner.clone()))
}

/// Drive a future strictly (fresh waker per poll, re-poll only after a wake), checking C12's rules on every Pending.
fn drive_strict<F: Future>(fut: Pin<&mut F>, what: &str, pending_counter: &mut u64, seen: &mut Seen) -> Result<F::Output, Fail> {
    let mut fut = fut;
    for _ in 0..64 {
        let round = mon(|m| {
            m.round += 1;
            m.round
        });
        let (w, rec) = new_waker(round);
        let mut cx = Context::from_waker(&w);
        let r = fut.as_mut().poll(&mut cx);
        if let Some(owner) = polled_after_done() {
            return fail("C12:inner-future-polled-after-completion", format!("{what}: {owner} was polled again after it returned Ready"));
        }
        if let Some(id) = called_after_ready_err() {
            return fail(
                "C12:readiness-error-treated-as-ready",
                format!("{what}: leaf service {id} answered its readiness check with an error and was called nevertheless (the error was not reported in place of ready)"),
            );
        }
        match r {
            Poll::Ready(v) => return Ok(v),
            Poll::Pending => {
                *pending_counter += 1;
                check_pending_futures(round, what, &rec, seen)?;
            }
        }
    }
    fail("C12:future-never-completes", format!("{what} still pending after 64 strict polls"))
}

/// Readiness protocol on a built service (C12), then one call (C11 + C12).
pub fn check_service<S>(svc: &S, node: &Node, req: u32, seen: &mut Seen) -> Result<(), Fail>
where
    S: Service<u32, Response = u32, Error = u32>,
{
    let mut specs = Vec::new();
    leaves(node, &mut specs);
    // ---- readiness
    let mut ready = false;
    for _ in 0..16 {
        let round = mon(|m| {
            m.round += 1;
            m.round
        });
        seen.ready_rounds += 1;
        let (w, rec) = new_waker(round);
        let mut cx = Context::from_waker(&w);
        let got = svc.poll_ready(&mut cx);
        // what the leaves saw in this round
        let mut this_round: Vec<(u8, Option<u64>, char)> = Vec::new();
        let mut still_pending_unpolled: Vec<u8> = Vec::new();
        mon(|m| {
            for (id, l) in &m.leaves {
                match l.ready_polls.last() {
                    Some((r, wid, o)) if *r == round => this_round.push((*id, *wid, *o)),
                    _ => {
                        if l.ready_left > 0 {
                            still_pending_unpolled.push(*id);
                        }
                    }
                }
            }
        });
        let errs: Vec<(u8, u32)> = this_round
            .iter()
            .filter(|x| x.2 == 'E')
            .map(|x| (x.0, specs.iter().find(|s| s.id == x.0).and_then(|s| s.ready_err).unwrap()))
            .collect();
        match got {
            Poll::Ready(Ok(())) => {
                if !errs.is_empty() {
                    return fail("C12:ready-although-inner-readiness-error", format!("poll_ready = Ready(Ok) but leaf {} reported a readiness error in this poll", errs[0].0));
                }
                let not_ready: Vec<u8> = specs
                    .iter()
                    .filter(|s| !this_round.iter().any(|x| x.0 == s.id && x.2 == 'R'))
                    .map(|s| s.id)
                    .collect();
                if !not_ready.is_empty() {
                    return fail(
                        "C12:ready-although-inner-not-ready",
                        format!("poll_ready = Ready(Ok) in round {round} but leaves {not_ready:?} did not report ready in this poll"),
                    );
                }
                seen.ready_ok += 1;
                ready = true;
                break;
            }
            Poll::Ready(Err(e)) => {
                let acceptable: Vec<u32> = errs.iter().filter_map(|(id, le)| mapped_ready_err(node, *id, *le)).collect();
                if acceptable.is_empty() {
                    return fail("C12:readiness-error-without-inner-error", format!("poll_ready = Err({e}) but no leaf reported an error in this poll"));
                }
                if !acceptable.contains(&e) {
                    return fail(
                        "C12:readiness-error-not-mapped",
                        format!("poll_ready = Err({e}); inner error(s) mapped through the tree would be {acceptable:?}"),
                    );
                }
                seen.ready_errors += 1;
                return Ok(()); // service is not callable
            }
            Poll::Pending => {
                seen.ready_pending_rounds += 1;
                if !errs.is_empty() {
                    return fail("C12:readiness-error-swallowed", format!("poll_ready = Pending but leaf {} reported a readiness error in this poll", errs[0].0));
                }
                if !this_round.iter().any(|x| x.2 == 'P') {
                    return fail("C12:pending-without-pending-inner", format!("poll_ready = Pending in round {round} although no inner service returned Pending in this poll"));
                }
                if !still_pending_unpolled.is_empty() {
                    return fail(
                        "C12:pending-inner-service-not-polled",
                        format!("poll_ready = Pending in round {round} but still-pending leaves {still_pending_unpolled:?} were not polled in this poll"),
                    );
                }
                seen.waker_checks += 1;
                if let Some(x) = this_round.iter().find(|x| x.2 == 'P' && x.1 != Some(round)) {
                    return fail(
                        "C12:pending-inner-service-polled-with-other-waker",
                        format!("leaf {} was polled with waker {:?} instead of the current one ({round})", x.0, x.1),
                    );
                }
                // readiness changes: pending leaves wake what they were given
                let ws: Vec<Waker> = mon(|m| m.leaves.iter().filter(|(_, l)| matches!(l.ready_polls.last(), Some((r, _, 'P')) if *r == round)).filter_map(|(_, l)| l.ready_waker.clone()).collect());
                for w in ws {
                    w.wake();
                }
                seen.wake_progress_checks += 1;
                if rec.wakes() == 0 {
                    return fail("C12:lost-wakeup", format!("poll_ready: inner services woke their wakers but the polling task was not woken (round {round})"));
                }
            }
        }
    }
    if !ready {
        return fail("C12:readiness-never-returns", "poll_ready still Pending after 16 rounds".into());
    }

    // ---- call
    mon(|m| m.log.clear());
    let mut want_log = Vec::new();
    let want = eval(node, req, &mut want_log);
    seen.calls += 1;
    let mut fut = Box::pin(svc.call(req));
    let mut pend = 0;
    let got = drive_strict(fut.as_mut(), "call future", &mut pend, seen)?;
    seen.call_pending_polls += pend;
    drop(fut);
    let got_log: Vec<Ev> = mon(|m| m.log.clone());
    seen.leaf_future_polls += mon(|m| m.futs.iter().map(|f| f.polls.len() as u64).sum::<u64>());
    if got != want {
        let sig = match (&want, &got) {
            (Ok(_), Err(_)) => "C11:call:error-instead-of-response",
            (Err(_), Ok(_)) => "C11:call:response-instead-of-error",
            (Ok(_), Ok(_)) => "C11:call:wrong-response",
            _ => "C11:call:wrong-error",
        };
        return fail(sig, format!("call({req}) = {got:?}, reference composition gives {want:?}; events {got_log:?} vs {want_log:?}"));
    }
    seen.events_compared += want_log.len() as u64;
    if got_log != want_log {
        let sig = if got_log.len() > want_log.len() {
            "C11:call:extra-stage-or-mapper-invocation"
        } else if got_log.len() < want_log.len() {
            "C11:call:missing-stage-or-mapper-invocation"
        } else {
            "C11:call:stage-order-or-argument-differs"
        };
        return fail(sig, format!("call({req}) = {got:?} as expected but events (call/map/map_err with arguments) {got_log:?} differ from reference {want_log:?}"));
    }
    match got {
        Ok(_) => seen.call_ok += 1,
        Err(_) => seen.call_err += 1,
    }
    Ok(())
}

/// Initialise a factory with a strict executor, compare with the reference, then check the created service.
pub fn check_factory<F>(fac: &F, fnode: &FNode, cfg: u32, req: u32, seen: &mut Seen) -> Result<(), Fail>
where
    F: ServiceFactory<u32, Config = u32, Response = u32, Error = u32, InitError = u32>,
{
    let mut evs = Vec::new();
    let want = finit(fnode, cfg, 0, &mut evs);
    mon(|m| m.log.clear());
    let mut fut = Box::pin(fac.new_service(cfg));
    let mut pend = 0;
    let got = drive_strict(fut.as_mut(), "new_service future", &mut pend, seen)?;
    seen.init_pending_polls += pend;
    drop(fut);
    let got_log: Vec<Ev> = mon(|m| m.log.clone());
    let mut sorted_got = got_log.clone();
    sorted_got.sort();
    match (got, want.out) {
        (Ok(svc), Ok(node)) => {
            seen.init_ok += 1;
            let mut want_log: Vec<Ev> = evs.iter().map(|(_, e)| *e).collect();
            want_log.sort();
            if sorted_got != want_log {
                return fail(
                    "C11:factory:inner-factories-not-invoked-exactly-once-with-config",
                    format!("init events (new_service/config/transform with arguments) {got_log:?} differ from reference {want_log:?}"),
                );
            }
            // the service's leaves were registered while building; readiness may have been consumed by apply_cfg_factory
            check_service(&svc, &node, req, seen)
        }
        (Err(e), Err(acc)) => {
            seen.init_err += 1;
            if acc.len() > 1 {
                seen.init_ambiguous_errors += 1;
            }
            if !acc.contains(&e) {
                return fail("C11:factory:wrong-init-error", format!("new_service failed with {e}, the first init error per reference is one of {acc:?} (events {got_log:?})"));
            }
            // no inner factory may have been invoked twice or with a wrong config
            let mut all: Vec<Ev> = evs.iter().map(|(_, e)| *e).collect();
            for g in &got_log {
                if g.0 == 'i' || g.0 == 'j' {
                    continue; // error mappers: checked through the error value
                }
                match all.iter().position(|x| x == g) {
                    Some(p) => {
                        all.remove(p);
                    }
                    None => {
                        return fail(
                            "C11:factory:unexpected-init-event",
                            format!("init event {g:?} is not among the reference events (double invocation or wrong config); observed {got_log:?}"),
                        )
                    }
                }
            }
            // every inner factory is invoked when new_service is called (sequential stages only run
            // transforms / configuration closures later), so these must have happened whatever failed
            for (_, e) in &evs {
                let at_call_time = matches!(e.0, 'n' | 'g' | 'f') || (e.0 == 'a' && e.1 == 0);
                if at_call_time && !got_log.contains(e) {
                    return fail("C11:factory:inner-factory-not-invoked", format!("reference init event {e:?} did not happen; observed {got_log:?}"));
                }
            }
            Ok(())
        }
        (Ok(_), Err(acc)) => fail("C11:factory:init-succeeded-despite-init-error", format!("new_service succeeded, reference fails with one of {acc:?}")),
        (Err(e), Ok(_)) => fail("C11:factory:init-failed-unexpectedly", format!("new_service failed with {e}, reference succeeds (events {got_log:?})")),
    }
}

// ------------------------------------------------------------------ generation

fn leaf_variant(id: u8, v: usize) -> LeafSpec {
    // 36 variants: ready_pending 0..2 x ready_err x call_pending 0..2 x call_err
    LeafSpec {
        id,
        ready_pending: (v % 3) as u8,
        ready_err: if (v / 3) % 2 == 1 { Some(300 + id as u32) } else { None },
        call_pending: ((v / 6) % 3) as u8,
        call_err: (v / 18) % 2 == 1,
    }
}

const UNARY: usize = 11;

fn unary(op: usize, a: Node) -> Node {
    let a = Box::new(a);
    match op {
        0 => Node::Map(a, 1),
        1 => Node::MapErr(a, 2),
        2 => Node::ApplyFn(a, ApplyKind::Pass),
        3 => Node::ApplyFn(a, ApplyKind::PrePost),
        4 => Node::ApplyFn(a, ApplyKind::ShortOdd),
        5 => Node::Wrap(a, WrapKind::Boxed),
        6 => Node::Wrap(a, WrapKind::RcBoxed),
        7 => Node::Wrap(a, WrapKind::Rc),
        8 => Node::Wrap(a, WrapKind::RefCell),
        9 => Node::Wrap(a, WrapKind::Box),
        _ => Node::Transformed(a, 3),
    }
}

fn renumber(node: &mut Node, next: &mut u8) {
    match node {
        Node::Leaf(s) => {
            s.id = *next;
            if let Some(e) = &mut s.ready_err {
                *e = 300 + *next as u32;
            }
            *next += 1;
        }
        Node::FnLeaf(_) => {}
        Node::AndThen(a, b) => {
            renumber(a, next);
            renumber(b, next);
        }
        Node::Map(a, _) | Node::MapErr(a, _) | Node::ApplyFn(a, _) | Node::Wrap(a, _) | Node::Transformed(a, _) => renumber(a, next),
    }
}

fn random_node(rng: &mut Rng, depth: u32) -> Node {
    if depth == 0 || rng.chance(1, 5) {
        if rng.chance(1, 10) {
            return Node::FnLeaf(rng.below(50) as u32);
        }
        // bias towards healthy leaves so that deep trees often run to completion
        let v = if rng.chance(1, 2) { rng.usize(3) + 6 * rng.usize(3) } else { rng.usize(36) };
        return Node::Leaf(leaf_variant(0, v));
    }
    match rng.usize(10) {
        0..=3 => Node::AndThen(Box::new(random_node(rng, depth - 1)), Box::new(random_node(rng, depth - 1))),
        4 => {
            // Twice only directly over a leaf (see reference)
            let v = rng.usize(36);
            Node::ApplyFn(Box::new(Node::Leaf(leaf_variant(0, v))), ApplyKind::Twice)
        }
        _ => {
            let mut n = unary(rng.usize(UNARY), random_node(rng, depth - 1));
            // vary mapper ids
            match &mut n {
                Node::Map(_, k) | Node::MapErr(_, k) => *k = rng.below(4) as u8,
                Node::Transformed(_, t) => *t = rng.below(4) as u8,
                _ => {}
            }
            n
        }
    }
}

fn random_fnode(rng: &mut Rng, depth: u32, next_fid: &mut u8) -> FNode {
    if depth == 0 || rng.chance(1, 5) {
        return match rng.usize(10) {
            0 => FNode::FFnService(rng.below(40) as u32),
            1 => FNode::FFnFactory(random_node(rng, 1)),
            2 => FNode::FFnFactoryCfg(random_node(rng, 1)),
            3 => FNode::FApplyCfg { node: random_node(rng, 1), delay: rng.below(3) as u8, err: rng.chance(1, 5) },
            4 => {
                let fid = *next_fid;
                *next_fid += 1;
                FNode::FApplyCfgFactory {
                    inner: Box::new(FNode::FLeaf { fid, delay: rng.below(3) as u8, err: rng.chance(1, 6), node: Node::Leaf(leaf_variant(0, rng.usize(36))) }),
                    k: rng.below(3) as u8,
                    delay: rng.below(3) as u8,
                    err: rng.chance(1, 6),
                }
            }
            _ => {
                let fid = *next_fid;
                *next_fid += 1;
                FNode::FLeaf { fid, delay: rng.below(3) as u8, err: rng.chance(1, 4), node: random_node(rng, 1) }
            }
        };
    }
    let mut sub = |rng: &mut Rng| Box::new(random_fnode(rng, depth - 1, next_fid));
    match rng.usize(14) {
        0..=3 => {
            let a = sub(rng);
            let b = sub(rng);
            FNode::FAndThen(a, b)
        }
        4 => FNode::FMap(sub(rng), rng.below(4) as u8),
        5 => FNode::FMapErr(sub(rng), rng.below(4) as u8),
        6 => FNode::FMapInitErr(sub(rng), rng.below(4) as u8),
        7 => FNode::FMapConfig(sub(rng), rng.below(4) as u8),
        8 => FNode::FUnit(sub(rng), rng.below(4) as u8),
        9 => FNode::FApplyFn(sub(rng), *rng.pick(&[ApplyKind::Pass, ApplyKind::PrePost, ApplyKind::ShortOdd])),
        10 => FNode::FWrap(sub(rng), rng.below(3) as u8),
        _ => FNode::FApplyTransform(
            TSpec {
                tid: rng.below(4) as u8,
                delay: rng.below(3) as u8,
                err: rng.chance(1, 5),
                map_init_err: None,
                wrap: rng.below(3) as u8,
            },
            sub(rng),
        ),
    }
}

fn renumber_f(f: &mut FNode, next: &mut u8) {
    match f {
        FNode::FLeaf { node, .. } => renumber(node, next),
        FNode::FAndThen(a, b) => {
            renumber_f(a, next);
            renumber_f(b, next);
        }
        FNode::FMap(a, _) | FNode::FMapErr(a, _) | FNode::FMapInitErr(a, _) | FNode::FMapConfig(a, _) | FNode::FUnit(a, _) | FNode::FApplyFn(a, _) | FNode::FWrap(a, _) | FNode::FApplyTransform(_, a) => {
            renumber_f(a, next)
        }
        FNode::FApplyCfg { node, .. } | FNode::FFnFactory(node) | FNode::FFnFactoryCfg(node) => renumber(node, next),
        FNode::FApplyCfgFactory { inner, .. } => renumber_f(inner, next),
        FNode::FFnService(_) => {}
    }
}

// ------------------------------------------------------------------ static (un-erased) family

/// Fully typed trees (no boxing): the same monitors, concrete combinator types.
fn static_tree(shape: usize, v: [usize; 3], req: u32, seen: &mut Seen) -> Result<Option<String>, Fail> {
    let l = |i: u8| leaf_variant(i, v[i as usize]);
    let nl = |i: u8| Box::new(Node::Leaf(l(i)));
    reset_monitor();
    seen.static_trees += 1;
    macro_rules! go {
        ($svc:expr, $node:expr) => {{
            let node = $node;
            let svc = $svc;
            check_service(&svc, &node, req, seen)?;
            Ok(Some(format!("{node:?}")))
        }};
    }
    match shape {
        0 => go!(LeafSvc::new(&l(0)).and_then(LeafSvc::new(&l(1))), Node::AndThen(nl(0), nl(1))),
        1 => go!(LeafSvc::new(&l(0)).and_then(LeafSvc::new(&l(1))).and_then(LeafSvc::new(&l(2))), Node::AndThen(Box::new(Node::AndThen(nl(0), nl(1))), nl(2))),
        2 => go!(
            LeafSvc::new(&l(0)).and_then(LeafSvc::new(&l(1)).and_then(LeafSvc::new(&l(2)))),
            Node::AndThen(nl(0), Box::new(Node::AndThen(nl(1), nl(2))))
        ),
        3 => go!(
            LeafSvc::new(&l(0)).map(|x| {
                ev('m', 1, x);
                map_fn(1, x)
            }),
            Node::Map(nl(0), 1)
        ),
        4 => go!(
            LeafSvc::new(&l(0)).map_err(|e| {
                ev('e', 2, e);
                map_err_fn(2, e)
            }),
            Node::MapErr(nl(0), 2)
        ),
        5 => go!(
            LeafSvc::new(&l(0))
                .and_then(LeafSvc::new(&l(1)))
                .map(|x| {
                    ev('m', 1, x);
                    map_fn(1, x)
                })
                .map_err(|e| {
                    ev('e', 2, e);
                    map_err_fn(2, e)
                }),
            Node::MapErr(Box::new(Node::Map(Box::new(Node::AndThen(nl(0), nl(1))), 1)), 2)
        ),
        6 => go!(
            LeafSvc::new(&l(0))
                .map_err(|e| {
                    ev('e', 2, e);
                    map_err_fn(2, e)
                })
                .and_then(LeafSvc::new(&l(1)).map_err(|e| {
                    ev('e', 3, e);
                    map_err_fn(3, e)
                })),
            Node::AndThen(Box::new(Node::MapErr(nl(0), 2)), Box::new(Node::MapErr(nl(1), 3)))
        ),
        7 => go!(apply_fn(LeafSvc::new(&l(0)), wrap_fn::<LeafSvc>(ApplyKind::PrePost)), Node::ApplyFn(nl(0), ApplyKind::PrePost)),
        8 => go!(apply_fn(LeafSvc::new(&l(0)), wrap_fn::<LeafSvc>(ApplyKind::Twice)), Node::ApplyFn(nl(0), ApplyKind::Twice)),
        9 => {
            let s = LeafSvc::new(&l(0));
            go!(&s, Node::Leaf(l(0)))
        }
        10 => {
            let mut s = LeafSvc::new(&l(0));
            go!(&mut s, Node::Leaf(l(0)))
        }
        11 => go!(Box::new(LeafSvc::new(&l(0))), Node::Leaf(l(0))),
        12 => go!(Rc::new(LeafSvc::new(&l(0)).and_then(LeafSvc::new(&l(1)))), Node::AndThen(nl(0), nl(1))),
        13 => go!(RefCell::new(LeafSvc::new(&l(0))), Node::Leaf(l(0))),
        14 => go!(boxed::rc_service(LeafSvc::new(&l(0)).and_then(LeafSvc::new(&l(1)))), Node::AndThen(nl(0), nl(1))),
        15 => {
            let a = LeafSvc::new(&l(0));
            let b = LeafSvc::new(&l(1));
            go!((&a).and_then(&b), Node::AndThen(nl(0), nl(1)))
        }
        16 => go!(
            LeafSvc::new(&l(0)).and_then(|x: u32| {
                ev('s', 0, x);
                async move { Ok::<u32, u32>(x.wrapping_add(9)) }
            }),
            Node::AndThen(nl(0), Box::new(Node::FnLeaf(9)))
        ),
        17 => go!(
            HTransformed { inner: LeafSvc::new(&l(0)).and_then(LeafSvc::new(&l(1))), tid: 2 },
            Node::Transformed(Box::new(Node::AndThen(nl(0), nl(1))), 2)
        ),
        _ => Ok(None),
    }
}
const STATIC_SHAPES: usize = 18;

/// Typed factory trees.
fn static_factory(shape: usize, v: [usize; 3], d: [u8; 2], errs: [bool; 2], cfg: u32, req: u32, seen: &mut Seen) -> Result<Option<String>, Fail> {
    reset_monitor();
    seen.static_trees += 1;
    let lf = |i: u8| FNode::FLeaf { fid: i, delay: d[i as usize], err: errs[i as usize], node: Node::Leaf(leaf_variant(i, v[i as usize])) };
    let mk = |f: &FNode| match f {
        FNode::FLeaf { fid, delay, err, node } => LeafFactory { fid: *fid, delay: *delay, err: *err, node: node.clone() },
        _ => unreachable!(),
    };
    macro_rules! go {
        ($fac:expr, $fnode:expr) => {{
            let fnode = $fnode;
            let fac = $fac;
            check_factory(&fac, &fnode, cfg, req, seen)?;
            Ok(Some(format!("{fnode:?}")))
        }};
    }
    match shape {
        0 => go!(mk(&lf(0)).and_then(mk(&lf(1))), FNode::FAndThen(Box::new(lf(0)), Box::new(lf(1)))),
        1 => go!(
            mk(&lf(0)).map(|x| {
                ev('m', 1, x);
                map_fn(1, x)
            }),
            FNode::FMap(Box::new(lf(0)), 1)
        ),
        2 => go!(
            mk(&lf(0)).map_err(|e| {
                ev('e', 2, e);
                map_err_fn(2, e)
            }),
            FNode::FMapErr(Box::new(lf(0)), 2)
        ),
        3 => go!(
            mk(&lf(0)).map_init_err(|e| {
                ev('i', 1, e);
                map_init_err_fn(1, e)
            }),
            FNode::FMapInitErr(Box::new(lf(0)), 1)
        ),
        4 => go!(
            mk(&lf(0)).and_then(mk(&lf(1))).map_init_err(|e| {
                ev('i', 1, e);
                map_init_err_fn(1, e)
            }),
            FNode::FMapInitErr(Box::new(FNode::FAndThen(Box::new(lf(0)), Box::new(lf(1)))), 1)
        ),
        5 => go!(
            map_config(mk(&lf(0)), |c: u32| {
                ev('g', 3, c);
                map_cfg_fn(3, c)
            }),
            FNode::FMapConfig(Box::new(lf(0)), 3)
        ),
        6 => go!(Rc::new(mk(&lf(0)).and_then(mk(&lf(1)))), FNode::FAndThen(Box::new(lf(0)), Box::new(lf(1)))),
        7 => go!(Arc::new(mk(&lf(0))), lf(0)),
        8 => go!(
            apply(HTransform { spec: TSpec { tid: 1, delay: d[1], err: errs[1], map_init_err: None, wrap: 0 } }, mk(&lf(0))),
            FNode::FApplyTransform(TSpec { tid: 1, delay: d[1], err: errs[1], map_init_err: None, wrap: 0 }, Box::new(lf(0)))
        ),
        9 => go!(apply_fn_factory(mk(&lf(0)), wrap_fn::<BoxSvc>(ApplyKind::PrePost)), FNode::FApplyFn(Box::new(lf(0)), ApplyKind::PrePost)),
        10 => go!(boxed::factory(mk(&lf(0)).and_then(mk(&lf(1)))), FNode::FAndThen(Box::new(lf(0)), Box::new(lf(1)))),
        _ => Ok(None),
    }
}
const STATIC_FACTORY_SHAPES: usize = 11;

// ------------------------------------------------------------------ cases

fn node_code(n: &Node) -> String {
    format!("{n:?}")
}

fn run_service_case(node: &Node, req: u32, seen: &mut Seen) -> Result<(), Fail> {
    reset_monitor();
    let svc = build(node);
    check_service(&svc, node, req, seen)
}

fn run_factory_case(f: &FNode, cfg: u32, req: u32, seen: &mut Seen) -> Result<(), Fail> {
    reset_monitor();
    let fac = fbuild(f);
    check_factory(&fac, f, cfg, req, seen)
}

fn record(rep: &mut Report, want_prop: &str, r: Result<Result<(), Fail>, String>, desc: impl FnOnce() -> String, rp: impl FnOnce() -> Value) {
    rep.evaluations += 1;
    match r {
        Ok(Ok(())) => {}
        Ok(Err(f)) => {
            // one run serves C11 and C12; keep the violations of the property asked for
            if f.sig.starts_with(want_prop) {
                rep.violation(f.sig, format!("{} [{}]", f.desc, desc()), rp());
            } else {
                rep.count("other_property_violations_seen");
            }
        }
        Err(p) => rep.violation(format!("{want_prop}:panic"), format!("panic: {p} [{}]", desc()), rp()),
    }
}

pub fn run(args: &Args, rep: &mut Report) {
    let mut seen = Seen::default();
    let prop = args.prop.clone();

    if let Some(p) = &args.replay {
        let v: Value = serde_json::from_str(&std::fs::read_to_string(p).expect("replay file")).unwrap();
        // replay re-generates the case from its generator coordinates
        let kind = v["kind"].as_str().unwrap_or("");
        let seed = v["case_seed"].as_u64().unwrap_or(0);
        let req = v["req"].as_u64().unwrap_or(0) as u32;
        match kind {
            "random-service" => {
                let mut rng = Rng::new(seed);
                let mut node = random_node(&mut rng, v["depth"].as_u64().unwrap_or(3) as u32);
                renumber(&mut node, &mut 0);
                let r = catch(|| run_service_case(&node, req, &mut seen));
                record(rep, &prop, r, || node_code(&node), || v.clone());
            }
            "random-factory" => {
                let mut rng = Rng::new(seed);
                let mut f = random_fnode(&mut rng, v["depth"].as_u64().unwrap_or(3) as u32, &mut 0);
                renumber_f(&mut f, &mut 0);
                let cfg = v["cfg"].as_u64().unwrap_or(0) as u32;
                let r = catch(|| run_factory_case(&f, cfg, req, &mut seen));
                record(rep, &prop, r, || format!("{f:?}"), || v.clone());
            }
            "enum-service" => {
                let node = enum_service(v["index"].as_u64().unwrap());
                let r = catch(|| run_service_case(&node, req, &mut seen));
                record(rep, &prop, r, || node_code(&node), || v.clone());
            }
            "static-service" => {
                let vv: Vec<usize> = v["variants"].as_array().unwrap().iter().map(|x| x.as_u64().unwrap() as usize).collect();
                let r = catch(|| static_tree(v["shape"].as_u64().unwrap() as usize, [vv[0], vv[1], vv[2]], req, &mut seen).map(|_| ()));
                record(rep, &prop, r, || "static".into(), || v.clone());
            }
            "static-factory" => {
                let vv: Vec<usize> = v["variants"].as_array().unwrap().iter().map(|x| x.as_u64().unwrap() as usize).collect();
                let dd: Vec<u8> = v["delays"].as_array().unwrap().iter().map(|x| x.as_u64().unwrap() as u8).collect();
                let ee: Vec<bool> = v["errs"].as_array().unwrap().iter().map(|x| x.as_bool().unwrap()).collect();
                let cfg = v["cfg"].as_u64().unwrap_or(0) as u32;
                let r = catch(|| static_factory(v["shape"].as_u64().unwrap() as usize, [vv[0], vv[1], vv[2]], [dd[0], dd[1]], [ee[0], ee[1]], cfg, req, &mut seen).map(|_| ()));
                record(rep, &prop, r, || "static-factory".into(), || v.clone());
            }
            _ => panic!("unknown replay kind"),
        }
        rep.rule = "replay of one recorded tree".into();
        return;
    }

    let (n_random, n_random_f, enum_cap) = match args.tier.as_str() {
        "thorough" => (600_000u64, 400_000u64, u64::MAX),
        "miri" => (60, 60, 150),
        _ => (60_000, 40_000, u64::MAX),
    };
    let n_random = args.extra_u64("random", n_random);
    let n_random_f = args.extra_u64("random_f", n_random_f);

    // (1) exhaustive small trees: every unary combinator and and_then over all 36 leaf variants, requests 0..3
    let total_enum = enum_service_count();
    let mut idx = 0u64;
    let stride = if args.slow() { (total_enum / enum_cap.max(1)).max(1) } else { 1 };
    let mut i = 0u64;
    while i < total_enum {
        for req in 0..if args.slow() { 1 } else { 4u32 } {
            let my = args.mine(idx);
            idx += 1;
            if !my {
                continue;
            }
            let node = enum_service(i);
            let r = catch(|| run_service_case(&node, req, &mut seen));
            record(rep, &prop, r, || format!("{} req={req}", node_code(&node)), || json!({"prop": prop, "kind": "enum-service", "index": i, "req": req}));
            rep.distinct_counted += 1;
            rep.sample_spread(|| json!({"kind": "enum-service", "tree": node_code(&node), "req": req}));
        }
        i += stride;
    }
    rep.add("exhaustive_service_trees_all_shards", total_enum / stride);

    // (2) static typed family
    let mut sidx = 0u64;
    let variants: Vec<usize> = if args.slow() { vec![0, 7, 19] } else { (0..36).collect() };
    for shape in 0..STATIC_SHAPES {
        for &v0 in &variants {
            for &v1 in if shape_leaves(shape) > 1 { &variants[..] } else { &variants[..1] } {
                for v2 in if shape_leaves(shape) > 2 { vec![0usize, 1, 4, 7, 20, 27] } else { vec![0usize] } {
                    let my = args.mine(sidx);
                    sidx += 1;
                    if !my {
                        continue;
                    }
                    let req = (sidx % 4) as u32;
                    let r = catch(|| static_tree(shape, [v0, v1, v2], req, &mut seen).map(|_| ()));
                    record(rep, &prop, r, || format!("static shape {shape} variants [{v0},{v1},{v2}] req={req}"), || json!({"prop": prop, "kind": "static-service", "shape": shape, "variants": [v0, v1, v2], "req": req}));
                    rep.distinct_counted += 1;
                }
            }
        }
    }
    for shape in 0..STATIC_FACTORY_SHAPES {
        for &v0 in if args.slow() { &variants[..2] } else { &variants[..] } {
            for d0 in 0..3u8 {
                for d1 in 0..3u8 {
                    for e in 0..4u8 {
                        let my = args.mine(sidx);
                        sidx += 1;
                        if !my {
                            continue;
                        }
                        let errs = [e & 1 == 1, e & 2 == 2];
                        let (cfg, req) = (3 + d0 as u32, (sidx % 4) as u32);
                        let r = catch(|| static_factory(shape, [v0, (v0 * 7 + 1) % 36, 0], [d0, d1], errs, cfg, req, &mut seen).map(|_| ()));
                        record(
                            rep,
                            &prop,
                            r,
                            || format!("static factory shape {shape} v0={v0} delays [{d0},{d1}] errs {errs:?}"),
                            || json!({"prop": prop, "kind": "static-factory", "shape": shape, "variants": [v0, (v0 * 7 + 1) % 36, 0], "delays": [d0, d1], "errs": errs, "cfg": cfg, "req": req}),
                        );
                        rep.distinct_counted += 1;
                    }
                }
            }
        }
    }
    rep.add("static_typed_cases_all_shards", sidx);

    // (3) random trees, depth <= 3
    let mut rng = Rng::new(args.seed ^ 0xC11).fork(args.shard);
    for i in 0..n_random {
        if !args.mine(i) {
            continue;
        }
        let case_seed = rng.next_u64();
        let depth = 1 + (i % 3) as u32;
        let mut r2 = Rng::new(case_seed);
        let mut node = random_node(&mut r2, depth);
        renumber(&mut node, &mut 0);
        let req = (case_seed % 4) as u32;
        let r = catch(|| run_service_case(&node, req, &mut seen));
        record(rep, &prop, r, || format!("{} req={req}", node_code(&node)), || json!({"prop": prop, "kind": "random-service", "case_seed": case_seed, "depth": depth, "req": req}));
        rep.nontrivial(fnv_str(&format!("{node:?}{req}")));
        if i < 2 {
            rep.sample(|| json!({"kind": "random-service", "tree": node_code(&node), "req": req}));
        }
    }
    for i in 0..n_random_f {
        if !args.mine(i) {
            continue;
        }
        let case_seed = rng.next_u64();
        let depth = 1 + (i % 3) as u32;
        let mut r2 = Rng::new(case_seed);
        let mut f = random_fnode(&mut r2, depth, &mut 0);
        renumber_f(&mut f, &mut 0);
        let (cfg, req) = ((case_seed % 7) as u32, ((case_seed >> 8) % 4) as u32);
        let r = catch(|| run_factory_case(&f, cfg, req, &mut seen));
        record(rep, &prop, r, || format!("{f:?} cfg={cfg} req={req}"), || json!({"prop": prop, "kind": "random-factory", "case_seed": case_seed, "depth": depth, "cfg": cfg, "req": req}));
        rep.nontrivial(fnv_str(&format!("{f:?}{cfg}{req}")));
        if i < 2 {
            rep.sample(|| json!({"kind": "random-factory", "tree": format!("{f:?}"), "cfg": cfg, "req": req}));
        }
    }

    rep.exhaustive = true;
    rep.rule = "service trees: (1) exhaustive: every unary combinator (map, map_err, apply_fn x3, boxed::service, boxed::rc_service, Rc, RefCell, Box, Transform-produced wrapper) over each of 36 scripted leaf variants \
                (poll_ready Pending^0..2 then Ok|Err; call future Pending^0..2 then Ok|Err) and and_then over all 36x36 leaf pairs, requests 0..3, every node type-erased through boxed::service; \
                (2) a family of 18 fully typed (un-erased) service shapes incl. &S, &mut S, Box, Rc, RefCell, rc_service, and_then with a closure, and 11 typed factory shapes (and_then, map, map_err, map_init_err, map_config, Rc, Arc, apply(Transform), apply_fn_factory, boxed::factory) over leaf variants x init delays 0..2 x init errors; \
                (3) seeded random service trees and factory trees (and_then, map, map_err, map_init_err, map_config, unit_config, apply_fn_factory, apply_cfg, apply_cfg_factory, fn_factory, fn_factory_with_config, fn_service, boxed::factory, Rc, Arc, apply(Transform) incl. TransformExt::map_init_err and Rc/Arc transforms) of depth <= 3. \
                Every case is driven by a strict manual executor (fresh identified waker per poll, re-poll only after that waker was woken) and compared with a recursive reference interpreter (result, ordered call/mapper events with arguments, init events, acceptable first init errors). \
                Enumerated cases are distinct by construction; random ones de-duplicated by hash of the tree."
        .into();
    rep.add("obs_ready_rounds", seen.ready_rounds);
    rep.add("obs_ready_pending_rounds", seen.ready_pending_rounds);
    rep.add("obs_ready_errors_checked", seen.ready_errors);
    rep.add("obs_ready_ok", seen.ready_ok);
    rep.add("obs_calls", seen.calls);
    rep.add("obs_call_pending_polls", seen.call_pending_polls);
    rep.add("obs_call_ok", seen.call_ok);
    rep.add("obs_call_err", seen.call_err);
    rep.add("obs_events_compared", seen.events_compared);
    rep.add("obs_waker_identity_checks", seen.waker_checks);
    rep.add("obs_wake_progress_checks", seen.wake_progress_checks);
    rep.add("obs_init_ok", seen.init_ok);
    rep.add("obs_init_err", seen.init_err);
    rep.add("obs_init_pending_polls", seen.init_pending_polls);
    rep.add("obs_init_same_round_errors", seen.init_ambiguous_errors);
    rep.add("obs_leaf_future_polls", seen.leaf_future_polls);
    rep.add("obs_static_typed_trees", seen.static_trees);
}

fn shape_leaves(shape: usize) -> usize {
    match shape {
        0 | 5 | 6 | 12 | 14 | 15 | 17 => 2,
        1 | 2 => 3,
        _ => 1,
    }
}

fn enum_service_count() -> u64 {
    // unary over 36 variants + Twice over 36 + and_then 36*36 + and_then of and_then with reduced variants 6^3 * 2
    (UNARY as u64) * 36 + 36 + 36 * 36 + 2 * 216
}

const REDUCED: [usize; 6] = [0, 1, 4, 7, 20, 27];

fn enum_service(i: u64) -> Node {
    let u = (UNARY as u64) * 36;
    let mut node = if i < u {
        unary((i / 36) as usize, Node::Leaf(leaf_variant(0, (i % 36) as usize)))
    } else if i < u + 36 {
        Node::ApplyFn(Box::new(Node::Leaf(leaf_variant(0, (i - u) as usize))), ApplyKind::Twice)
    } else if i < u + 36 + 36 * 36 {
        let j = i - u - 36;
        Node::AndThen(Box::new(Node::Leaf(leaf_variant(0, (j / 36) as usize))), Box::new(Node::Leaf(leaf_variant(1, (j % 36) as usize))))
    } else {
        let j = i - u - 36 - 36 * 36;
        let left = j >= 216;
        let j = j % 216;
        let a = Node::Leaf(leaf_variant(0, REDUCED[(j % 6) as usize]));
        let b = Node::Leaf(leaf_variant(1, REDUCED[((j / 6) % 6) as usize]));
        let c = Node::Leaf(leaf_variant(2, REDUCED[((j / 36) % 6) as usize]));
        if left {
            Node::AndThen(Box::new(Node::AndThen(Box::new(a), Box::new(b))), Box::new(c))
        } else {
            Node::AndThen(Box::new(a), Box::new(Node::AndThen(Box::new(b), Box::new(c))))
        }
    };
    renumber(&mut node, &mut 0);
    node
}
