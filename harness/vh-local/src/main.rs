//! Single-threaded monitors: C11–C17, C20. Runs natively and under Miri.

mod c11;
mod c13;
mod c14;
mod c15;
mod c16;
mod c17;
mod c20;
mod mockio;

use vh_core::{Args, Report};

fn main() {
    vh_core::install_quiet_panic_hook();
    let args = Args::parse();
    let mut rep = Report::new(&args);
    match args.prop.as_str() {
        "C11" | "C12" => c11::run(&args, &mut rep),
        "C13" => c13::run(&args, &mut rep),
        "C14" => c14::run(&args, &mut rep),
        "C15" => c15::run(&args, &mut rep),
        "C16" => c16::run(&args, &mut rep),
        "C17" => c17::run(&args, &mut rep),
        "C20" => c20::run(&args, &mut rep),
        p => {
            eprintln!("vh-local: unknown property {p}");
            std::process::exit(2);
        }
    }
    std::process::exit(rep.finish(&args));
}
