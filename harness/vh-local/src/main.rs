//! Single-threaded monitors: C11–C17, C20. Runs natively and under Miri.

mod c16;

use vh_core::{Args, Report};

fn main() {
    vh_core::install_quiet_panic_hook();
    let args = Args::parse();
    let mut rep = Report::new(&args);
    match args.prop.as_str() {
        "C16" => c16::run(&args, &mut rep),
        p => {
            eprintln!("vh-local: unknown property {p}");
            std::process::exit(2);
        }
    }
    std::process::exit(rep.finish(&args));
}
