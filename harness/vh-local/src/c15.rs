//! C15 — LinesCodec frames lines exactly: real decoder/encoder vs an independent reference splitter.

use actix_codec::{Decoder, Encoder, LinesCodec};
use bytes::BytesMut;
use vh_core::{catch, fnv, json, Args, Report, Rng, Value};

const ALPHABET: [u8; 6] = [b'a', b'\r', b'\n', 0xC3, 0xA9, 0xFF];

#[derive(Debug, Clone, PartialEq, Eq)]
pub enum Item {
    Line(String),
    /// decode error (invalid UTF-8); carries the offending raw bytes for the witness only
    Invalid,
}

/// Independent reference: plain slice operations, no memchr, no BytesMut.
/// Returns the items and whether the trailing segment was the ambiguous lone "\r".
pub fn reference(input: &[u8]) -> (Vec<Item>, bool) {
    let mut out = Vec::new();
    let mut start = 0usize;
    let conv = |seg: &[u8]| match std::str::from_utf8(seg) {
        Ok(s) => Item::Line(s.to_string()),
        Err(_) => Item::Invalid,
    };
    for i in 0..input.len() {
        if input[i] == b'\n' {
            let mut seg = &input[start..i];
            if let [head @ .., b'\r'] = seg {
                seg = head;
            }
            out.push(conv(seg));
            start = i + 1;
        }
    }
    let mut tail = &input[start..];
    let mut lone_cr = false;
    if !tail.is_empty() {
        if let [head @ .., b'\r'] = tail {
            tail = head;
            lone_cr = tail.is_empty();
        }
        if !tail.is_empty() {
            out.push(conv(tail));
        }
    }
    (out, lone_cr)
}

/// Real codec on one whole buffer: decode until None, then decode_eof until None.
pub fn real_decode(input: &[u8]) -> Result<Vec<Item>, String> {
    let mut codec = LinesCodec::default();
    let mut buf = BytesMut::from(input);
    let mut out = Vec::new();
    let mut guard = 0;
    loop {
        guard += 1;
        if guard > 10_000 {
            return Err("decode does not terminate".into());
        }
        match codec.decode(&mut buf) {
            Ok(Some(s)) => out.push(Item::Line(s)),
            Ok(None) => break,
            Err(e) => {
                if e.kind() != std::io::ErrorKind::InvalidData {
                    return Err(format!("decode error of unexpected kind {:?}", e.kind()));
                }
                out.push(Item::Invalid)
            }
        }
    }
    loop {
        guard += 1;
        if guard > 10_000 {
            return Err("decode_eof does not terminate".into());
        }
        match codec.decode_eof(&mut buf) {
            Ok(Some(s)) => out.push(Item::Line(s)),
            Ok(None) => break,
            Err(e) => {
                if e.kind() != std::io::ErrorKind::InvalidData {
                    return Err(format!("decode_eof error of unexpected kind {:?}", e.kind()));
                }
                out.push(Item::Invalid)
            }
        }
    }
    Ok(out)
}

/// Real codec fed in two pieces (decode after each piece, then eof).
fn real_decode_split(input: &[u8], cut: usize) -> Result<Vec<Item>, String> {
    let mut codec = LinesCodec::default();
    let mut buf = BytesMut::new();
    let mut out = Vec::new();
    for piece in [&input[..cut], &input[cut..]] {
        buf.extend_from_slice(piece);
        let mut guard = 0;
        loop {
            guard += 1;
            if guard > 10_000 {
                return Err("decode does not terminate".into());
            }
            match codec.decode(&mut buf) {
                Ok(Some(s)) => out.push(Item::Line(s)),
                Ok(None) => break,
                Err(_) => out.push(Item::Invalid),
            }
        }
    }
    let mut guard = 0;
    loop {
        guard += 1;
        if guard > 10_000 {
            return Err("decode_eof does not terminate".into());
        }
        match codec.decode_eof(&mut buf) {
            Ok(Some(s)) => out.push(Item::Line(s)),
            Ok(None) => break,
            Err(_) => out.push(Item::Invalid),
        }
    }
    Ok(out)
}

struct Fail {
    sig: String,
    desc: String,
}

#[derive(Default)]
struct Seen {
    lines: u64,
    invalid: u64,
    crlf: u64,
    tail_lines: u64,
    lone_cr_tails: u64,
    split_decodes: u64,
    roundtrips: u64,
    empty_lines: u64,
}

fn classify(want: &[Item], got: &[Item]) -> &'static str {
    if got.len() < want.len() {
        "C15:decode:missing-frame"
    } else if got.len() > want.len() {
        "C15:decode:extra-frame"
    } else {
        for (w, g) in want.iter().zip(got) {
            match (w, g) {
                (Item::Invalid, Item::Line(_)) => return "C15:decode:invalid-utf8-yields-ok",
                (Item::Line(_), Item::Invalid) => return "C15:decode:valid-line-rejected",
                (Item::Line(a), Item::Line(b)) if a != b => return "C15:decode:line-content-differs",
                _ => {}
            }
        }
        "C15:decode:differs"
    }
}

fn check_decode(input: &[u8], seen: &mut Seen) -> Result<(), Fail> {
    let (want, lone_cr) = reference(input);
    let got = real_decode(input).map_err(|e| Fail {
        sig: "C15:decode:malfunction".into(),
        desc: e,
    })?;
    let mut alt = want.clone();
    if lone_cr {
        // documented ambiguity: a final unterminated "\r" may yield nothing or ""
        alt.push(Item::Line(String::new()));
        seen.lone_cr_tails += 1;
    }
    if got != want && !(lone_cr && got == alt) {
        return Err(Fail {
            sig: classify(&want, &got).into(),
            desc: format!("decode({input:02x?}) = {got:?}, reference = {want:?}"),
        });
    }
    for it in &want {
        match it {
            Item::Line(s) => {
                seen.lines += 1;
                if s.is_empty() {
                    seen.empty_lines += 1;
                }
            }
            Item::Invalid => seen.invalid += 1,
        }
    }
    if input.windows(2).any(|w| w == b"\r\n") {
        seen.crlf += 1;
    }
    if !input.is_empty() && *input.last().unwrap() != b'\n' {
        seen.tail_lines += 1;
    }
    // two-piece feeding must give the same answer
    for cut in 0..=input.len() {
        seen.split_decodes += 1;
        let g2 = real_decode_split(input, cut).map_err(|e| Fail {
            sig: "C15:decode:malfunction".into(),
            desc: e,
        })?;
        if g2 != got {
            return Err(Fail {
                sig: "C15:decode:depends-on-split".into(),
                desc: format!("decode({input:02x?}) cut at {cut} = {g2:?}, whole = {got:?}"),
            });
        }
    }
    Ok(())
}

fn check_roundtrip(strings: &[String], seen: &mut Seen) -> Result<(), Fail> {
    let mut codec = LinesCodec::default();
    let mut buf = BytesMut::new();
    for s in strings {
        let before = buf.len();
        codec.encode(s.as_str(), &mut buf).map_err(|e| Fail {
            sig: "C15:encode:error".into(),
            desc: format!("encode({s:?}) failed: {e}"),
        })?;
        let added = &buf[before..];
        let mut want = s.as_bytes().to_vec();
        want.push(b'\n');
        if added != &want[..] {
            return Err(Fail {
                sig: "C15:encode:not-item-plus-one-lf".into(),
                desc: format!("encode({s:?}) appended {added:02x?}, expected {want:02x?}"),
            });
        }
    }
    seen.roundtrips += 1;
    let got = real_decode(&buf).map_err(|e| Fail {
        sig: "C15:decode:malfunction".into(),
        desc: e,
    })?;
    let want: Vec<Item> = strings.iter().map(|s| Item::Line(s.clone())).collect();
    if got != want {
        return Err(Fail {
            sig: "C15:roundtrip:differs".into(),
            desc: format!("decode(encode({strings:?})) = {got:?}"),
        });
    }
    Ok(())
}

fn report(rep: &mut Report, r: Result<Result<(), Fail>, String>, rp: Value) {
    rep.evaluations += 1;
    match r {
        Ok(Ok(())) => {}
        Ok(Err(f)) => rep.violation(f.sig, f.desc, rp),
        Err(p) => rep.violation("C15:panic", format!("panic: {p}"), rp),
    }
}

pub fn run(args: &Args, rep: &mut Report) {
    let mut seen = Seen::default();

    if let Some(p) = &args.replay {
        let v: Value = serde_json::from_str(&std::fs::read_to_string(p).expect("replay file")).unwrap();
        if let Some(b) = v["bytes"].as_array() {
            let bytes: Vec<u8> = b.iter().map(|x| x.as_u64().unwrap() as u8).collect();
            let r = catch(|| check_decode(&bytes, &mut seen));
            report(rep, r, v.clone());
        } else {
            let strings: Vec<String> = v["strings"].as_array().unwrap().iter().map(|s| s.as_str().unwrap().to_string()).collect();
            let r = catch(|| check_roundtrip(&strings, &mut seen));
            report(rep, r, v.clone());
        }
        rep.rule = "replay of one recorded input".into();
        return;
    }

    let (maxlen, n_random) = match args.tier.as_str() {
        "thorough" => (7, 60_000u64),
        "miri" => (3, 40),
        _ => (6, 6_000),
    };
    let maxlen = args.extra_u64("maxlen", maxlen) as usize;
    let n_random = args.extra_u64("random", n_random);

    let mut idx = 0u64;
    for len in 0..=maxlen {
        let total = 6u64.pow(len as u32);
        for n in 0..total {
            let my = args.mine(idx);
            idx += 1;
            if !my {
                continue;
            }
            let mut x = n;
            let input: Vec<u8> = (0..len)
                .map(|_| {
                    let b = ALPHABET[(x % 6) as usize];
                    x /= 6;
                    b
                })
                .collect();
            let r = catch(|| check_decode(&input, &mut seen));
            report(rep, r, json!({"prop": "C15", "bytes": input}));
            rep.distinct_counted += 1;
            rep.sample_spread(|| json!({"bytes_hex": format!("{input:02x?}"), "reference": format!("{:?}", reference(&input).0)}));
        }
    }
    rep.add("exhaustive_inputs_all_shards", idx);
    rep.max("max_exhaustive_len", maxlen as u64);

    // round trip: all sequences of <= 3 admissible strings of length <= 2 over the alphabet
    let mut adm: Vec<String> = vec![String::new()];
    let letters = ["a", "\r", "é", "\u{0}"]; // valid-UTF-8 building blocks ('é' = C3 A9)
    for a in letters {
        adm.push(a.to_string());
        for b in letters {
            adm.push(format!("{a}{b}"));
        }
    }
    adm.retain(|s| !s.contains('\n') && !s.ends_with('\r'));
    let mut ridx = 0u64;
    let k = adm.len();
    let rt_max = if args.slow() { 2 } else { 3 };
    for n in 0..=rt_max {
        let total = (k as u64).pow(n as u32);
        for c in 0..total {
            let my = args.mine(ridx);
            ridx += 1;
            if !my {
                continue;
            }
            let mut x = c;
            let strings: Vec<String> = (0..n)
                .map(|_| {
                    let s = adm[(x % k as u64) as usize].clone();
                    x /= k as u64;
                    s
                })
                .collect();
            let r = catch(|| check_roundtrip(&strings, &mut seen));
            report(rep, r, json!({"prop": "C15", "strings": strings}));
            rep.distinct_counted += 1;
        }
    }
    rep.add("exhaustive_roundtrip_sequences_all_shards", ridx);

    // random longer inputs
    let mut rng = Rng::new(args.seed ^ 0xC15).fork(args.shard);
    for i in 0..n_random {
        if !args.mine(i) {
            continue;
        }
        let len = 8 + rng.usize(if args.slow() { 24 } else { 4088 });
        let pool: &[u8] = b"abc \r\n\r\n\xC3\xA9\xE2\x82\xAC\xFF\x80xyz\n";
        let input: Vec<u8> = (0..len).map(|_| *rng.pick(pool)).collect();
        let inp = if len > 64 { &input[..] } else { &input[..] };
        // full-split check is quadratic; on long inputs check 8 random cuts via a shortened call
        let r = catch(|| {
            if inp.len() <= 64 {
                check_decode(inp, &mut seen)
            } else {
                let (want, lone) = reference(inp);
                let got = real_decode(inp).map_err(|e| Fail { sig: "C15:decode:malfunction".into(), desc: e })?;
                let mut alt = want.clone();
                if lone {
                    alt.push(Item::Line(String::new()));
                }
                if got != want && !(lone && got == alt) {
                    return Err(Fail {
                        sig: classify(&want, &got).into(),
                        desc: format!("decode of {}-byte random input differs from reference: first 64 bytes {:02x?}", inp.len(), &inp[..64]),
                    });
                }
                seen.lines += want.len() as u64;
                Ok(())
            }
        });
        report(rep, r, json!({"prop": "C15", "bytes": input}));
        rep.nontrivial(fnv(&input));
        // random round trip of longer admissible strings
        let n = 1 + rng.usize(6);
        let strings: Vec<String> = (0..n)
            .map(|_| {
                let l = rng.usize(20);
                let mut s: String = (0..l).map(|_| *rng.pick(&['a', 'é', '€', '\r', ' ', '\t', '😀'])).collect();
                while s.ends_with('\r') {
                    s.pop();
                }
                s
            })
            .collect();
        let r = catch(|| check_roundtrip(&strings, &mut seen));
        report(rep, r, json!({"prop": "C15", "strings": strings}));
    }

    rep.exhaustive = true;
    rep.rule = format!(
        "decode: every byte string of length <= {maxlen} over {{a, CR, LF, C3, A9, FF}} decoded by the real LinesCodec (decode until None, then decode_eof until None) in one buffer \
         and cut in two at every position, compared with an independent slice-based reference splitter (lone trailing CR accepted either way); \
         round trip: every sequence of <= {rt_max} admissible strings of length <= 2 over {{a, CR, é, NUL}} (no LF, not ending in CR), encode checked to append exactly item+LF; \
         plus random inputs to 4 KiB and random longer round trips. Enumerated inputs are distinct by construction and all counted (each is compared with the reference); random ones de-duplicated by hash."
    );
    rep.add("obs_lines_compared", seen.lines);
    rep.add("obs_invalid_utf8_lines", seen.invalid);
    rep.add("obs_inputs_with_crlf", seen.crlf);
    rep.add("obs_inputs_with_unterminated_tail", seen.tail_lines);
    rep.add("obs_lone_cr_tails", seen.lone_cr_tails);
    rep.add("obs_two_piece_decodes", seen.split_decodes);
    rep.add("obs_roundtrips", seen.roundtrips);
    rep.add("obs_empty_lines", seen.empty_lines);
}
