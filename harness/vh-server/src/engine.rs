//! Scenario engine: a real actix-server (accept thread, workers, loopback TCP / UDS listeners),
//! scripted services, blocking clients, and the barrier that turns "eventually" into a
//! logical-step bound. All events (hook + harness) go into the one ordered hook log.

#![allow(dead_code)]

use std::{
    collections::{HashMap, VecDeque},
    future::Future,
    io::{Read, Write},
    net::{SocketAddr, TcpStream as StdTcp},
    os::unix::net::UnixStream as StdUds,
    path::PathBuf,
    pin::Pin,
    sync::{
        atomic::{AtomicBool, AtomicU64, Ordering},
        mpsc, Arc, Condvar, Mutex,
    },
    task::{Context, Poll, Wake, Waker},
    thread,
    time::{Duration, Instant},
};

use actix_server::{
    verif::{self, Ev, Rec, Snapshot},
    Server, ServerHandle,
};
use actix_service::{Service, ServiceFactory};
use tokio::io::{AsyncRead, AsyncReadExt, AsyncWrite, AsyncWriteExt};

// ------------------------------------------------------------------ tiny block_on

struct ThreadWaker(thread::Thread);
impl Wake for ThreadWaker {
    fn wake(self: Arc<Self>) {
        self.0.unpark();
    }
}

/// Block the calling (harness) thread on a future, up to `timeout`.
pub fn block_on_timeout<F: Future>(fut: F, timeout: Duration) -> Option<F::Output> {
    let mut fut = Box::pin(fut);
    let waker = Waker::from(Arc::new(ThreadWaker(thread::current())));
    let mut cx = Context::from_waker(&waker);
    let t0 = Instant::now();
    loop {
        if let Poll::Ready(v) = fut.as_mut().poll(&mut cx) {
            return Some(v);
        }
        let left = timeout.checked_sub(t0.elapsed())?;
        thread::park_timeout(left.min(Duration::from_millis(50)));
    }
}

// ------------------------------------------------------------------ user events

pub fn uev(kind: &'static str, a: u64, b: u64, c: u64) {
    verif::emit(Ev::User { kind, a, b, c });
}

// ------------------------------------------------------------------ scripted services

#[derive(Clone, Copy, Debug, PartialEq, Eq)]
pub enum ReadyStep {
    Pending,
    Ready,
    Err,
    Panic,
}

#[derive(Default)]
pub struct InstanceCtl {
    pub script: VecDeque<ReadyStep>,
    pub waker: Option<Waker>,
    /// what the last poll returned
    pub last: Option<ReadyStep>,
    pub thread: u64,
}

#[derive(Default)]
pub struct ListenerCtl {
    pub instances: HashMap<u64, InstanceCtl>,
    /// scripts handed to instances in creation order (then default: always Ready)
    pub initial_scripts: VecDeque<Vec<ReadyStep>>,
    /// instances whose next `call` panics
    pub panic_on_call: Vec<u64>,
    /// any instance: panic on the next call
    pub panic_next_call: bool,
    /// new_service: delay before completing, per creation (then 0)
    pub factory_delay_ms: VecDeque<u64>,
    /// new_service fails for these creation ordinals (0-based)
    pub factory_fail: Vec<u64>,
    /// the next creation that happens on one of these threads fails (one-shot per entry): an in-place service restart
    /// runs on the worker's own thread, a replacement worker is built on a new one, so this addresses the former
    /// whatever order the two happen in
    pub factory_fail_on_thread: Vec<u64>,
    pub created: u64,
    /// keep the worker task's waker on every readiness poll (fault scenarios wake the worker at will)
    pub keep_wakers: bool,
}

#[derive(Clone)]
pub struct Ctl {
    pub listener: u64,
    pub inner: Arc<Mutex<ListenerCtl>>,
    pub next_instance: Arc<AtomicU64>,
}

impl Ctl {
    pub fn new(listener: u64, next_instance: Arc<AtomicU64>) -> Ctl {
        Ctl {
            listener,
            inner: Arc::new(Mutex::new(ListenerCtl::default())),
            next_instance,
        }
    }

    /// Replace an instance's readiness script and wake it.
    pub fn set_script(&self, instance: u64, steps: &[ReadyStep]) {
        let w = {
            let mut g = self.inner.lock().unwrap();
            let i = g.instances.entry(instance).or_default();
            i.script = steps.iter().copied().collect();
            i.waker.take()
        };
        if let Some(w) = w {
            w.wake();
        }
    }

    /// Replace an instance's readiness script WITHOUT waking the worker: the change is noticed at the worker's
    /// next poll, whatever triggers it (for example a connection arriving).
    pub fn set_script_quiet(&self, instance: u64, steps: &[ReadyStep]) {
        let mut g = self.inner.lock().unwrap();
        let i = g.instances.entry(instance).or_default();
        i.script = steps.iter().copied().collect();
    }

    /// Drop the current (sticky) readiness step of an instance and wake it.
    pub fn advance(&self, instance: u64) {
        let w = {
            let mut g = self.inner.lock().unwrap();
            let i = g.instances.entry(instance).or_default();
            i.script.pop_front();
            i.waker.take()
        };
        if let Some(w) = w {
            w.wake();
        }
    }

    /// Wake an instance's stored readiness waker without changing its script.
    pub fn wake(&self, instance: u64) {
        let w = self.inner.lock().unwrap().instances.get_mut(&instance).and_then(|i| i.waker.take());
        if let Some(w) = w {
            w.wake();
        }
    }

    pub fn instance_ids(&self) -> Vec<u64> {
        let mut v: Vec<u64> = self.inner.lock().unwrap().instances.keys().copied().collect();
        v.sort();
        v
    }
}

pub fn thread_hash() -> u64 {
    use std::hash::{Hash, Hasher};
    let mut h = std::collections::hash_map::DefaultHasher::new();
    thread::current().id().hash(&mut h);
    h.finish()
}

pub struct HFactory<S> {
    ctl: Ctl,
    _p: std::marker::PhantomData<fn(S)>,
}

impl<S> Clone for HFactory<S> {
    fn clone(&self) -> Self {
        HFactory { ctl: self.ctl.clone(), _p: std::marker::PhantomData }
    }
}

pub fn hfactory_tcp(ctl: Ctl) -> HFactory<actix_rt::net::TcpStream> {
    HFactory { ctl, _p: std::marker::PhantomData }
}

pub struct HService<S> {
    ctl: Ctl,
    instance: u64,
    _p: std::marker::PhantomData<fn(S)>,
}

pub trait RawFd {
    fn raw(&self) -> i32;
}
impl RawFd for actix_rt::net::TcpStream {
    fn raw(&self) -> i32 {
        std::os::unix::io::AsRawFd::as_raw_fd(self)
    }
}
impl RawFd for actix_rt::net::UnixStream {
    fn raw(&self) -> i32 {
        std::os::unix::io::AsRawFd::as_raw_fd(self)
    }
}

impl<S> ServiceFactory<S> for HFactory<S>
where
    S: AsyncRead + AsyncWrite + Unpin + RawFd + 'static,
{
    type Response = ();
    type Error = ();
    type Config = ();
    type Service = HService<S>;
    type InitError = ();
    type Future = Pin<Box<dyn Future<Output = Result<HService<S>, ()>>>>;

    fn new_service(&self, _: ()) -> Self::Future {
        let ctl = self.ctl.clone();
        Box::pin(async move {
            let instance = ctl.next_instance.fetch_add(1, Ordering::SeqCst);
            let (delay, fail) = {
                let mut g = ctl.inner.lock().unwrap();
                let ord = g.created;
                g.created += 1;
                let script = g.initial_scripts.pop_front().unwrap_or_default();
                g.instances.insert(
                    instance,
                    InstanceCtl {
                        script: script.into(),
                        thread: thread_hash(),
                        ..Default::default()
                    },
                );
                let th = thread_hash();
                let on_thread = match g.factory_fail_on_thread.iter().position(|t| *t == th) {
                    Some(k) => {
                        g.factory_fail_on_thread.remove(k);
                        true
                    }
                    None => false,
                };
                (g.factory_delay_ms.pop_front().unwrap_or(0), g.factory_fail.contains(&ord) || on_thread)
            };
            uev("factory_new", ctl.listener, instance, fail as u64);
            if delay > 0 {
                // a blocking (CPU-bound-like) slow factory: it must not depend on the runtime's timer, because
                // actix-server initialises workers with the caller's runtime thread blocked (plain Tokio mode)
                thread::sleep(Duration::from_millis(delay));
            }
            if fail {
                return Err(());
            }
            Ok(HService { ctl, instance, _p: std::marker::PhantomData })
        })
    }
}

struct EndGuard {
    cid: Arc<AtomicU64>,
    instance: u64,
    normal: Arc<AtomicBool>,
}
impl Drop for EndGuard {
    fn drop(&mut self) {
        uev("end", self.cid.load(Ordering::SeqCst), self.instance, self.normal.load(Ordering::SeqCst) as u64);
    }
}

impl<S> Service<S> for HService<S>
where
    S: AsyncRead + AsyncWrite + Unpin + RawFd + 'static,
{
    type Response = ();
    type Error = ();
    type Future = Pin<Box<dyn Future<Output = Result<(), ()>>>>;

    fn poll_ready(&self, cx: &mut Context<'_>) -> Poll<Result<(), ()>> {
        let step = {
            let mut g = self.ctl.inner.lock().unwrap();
            let keep = g.keep_wakers;
            let i = g.instances.entry(self.instance).or_default();
            // every step is sticky until the harness advances the script, except the one-shot faults
            let step = i.script.front().copied().unwrap_or(ReadyStep::Ready);
            // a service may wake its worker at any time; fault scenarios use that to make the worker re-check
            // readiness after they changed the script. (A kept waker pins the worker runtime's I/O driver, so it is
            // only kept where needed.)
            if keep || step == ReadyStep::Pending {
                i.waker = Some(cx.waker().clone());
            }
            if matches!(step, ReadyStep::Err | ReadyStep::Panic) {
                i.script.pop_front();
            }
            i.last = Some(step);
            step
        };
        uev("poll_ready", self.instance, step as u64, self.ctl.listener);
        match step {
            ReadyStep::Pending => Poll::Pending,
            ReadyStep::Ready => Poll::Ready(Ok(())),
            ReadyStep::Err => Poll::Ready(Err(())),
            ReadyStep::Panic => panic!("scripted poll_ready panic"),
        }
    }

    fn call(&self, mut stream: S) -> Self::Future {
        let instance = self.instance;
        let listener = self.ctl.listener;
        uev("call", instance, listener, stream.raw() as u64);
        let panic_now = {
            let mut g = self.ctl.inner.lock().unwrap();
            if g.panic_next_call {
                g.panic_next_call = false;
                true
            } else if let Some(p) = g.panic_on_call.iter().position(|i| *i == instance) {
                g.panic_on_call.remove(p);
                true
            } else {
                false
            }
        };
        if panic_now {
            panic!("scripted call panic");
        }
        Box::pin(async move {
            let cid = Arc::new(AtomicU64::new(u64::MAX));
            let normal = Arc::new(AtomicBool::new(false));
            let _g = EndGuard { cid: cid.clone(), instance, normal: normal.clone() };
            let mut hdr = [0u8; 9];
            if stream.read_exact(&mut hdr).await.is_err() {
                return Err(());
            }
            let id = u64::from_le_bytes(hdr[..8].try_into().unwrap());
            cid.store(id, Ordering::SeqCst);
            uev("identified", id, instance, listener);
            // acknowledge: the client now knows it is being served
            if stream.write_all(b"k").await.is_err() {
                return Err(());
            }
            match hdr[8] {
                b'F' => {}
                _ => {
                    // hold until the client closes (or sends 'q')
                    let mut b = [0u8; 16];
                    loop {
                        match stream.read(&mut b).await {
                            Ok(0) => break,
                            Ok(n) if b[..n].contains(&b'q') => break,
                            Ok(n) if b[..n].contains(&b's') => {
                                // a handler that blocks its worker thread (2.5 s)
                                uev("stall_begin", id, instance, 0);
                                thread::sleep(Duration::from_millis(2500));
                                uev("stall_end", id, instance, 0);
                            }
                            Ok(_) => {}
                            Err(_) => return Err(()),
                        }
                    }
                }
            }
            normal.store(true, Ordering::SeqCst);
            Ok(())
        })
    }
}

// ------------------------------------------------------------------ server under test

#[derive(Clone, Copy, Debug, PartialEq, Eq)]
pub enum LKind {
    Tcp,
    Uds,
}

#[derive(Clone, Copy, Debug, PartialEq, Eq)]
pub enum RtKind {
    Actix,
    Tokio,
}

#[derive(Clone, Debug)]
pub struct ServerCfg {
    pub workers: usize,
    pub limit: usize,
    pub listeners: Vec<LKind>,
    pub rt: RtKind,
    pub shutdown_timeout: u64,
    pub backlog: u32,
}

#[derive(Clone, Debug)]
pub enum Addr {
    Tcp(SocketAddr),
    Uds(PathBuf),
}

impl Addr {
    /// how actix-server's `MioListener::local_addr()` displays it (key for accept-error injection)
    pub fn display_key(&self) -> String {
        match self {
            Addr::Tcp(a) => a.to_string(),
            Addr::Uds(p) => format!("{:?}", std::os::unix::net::SocketAddr::from_pathname(p).unwrap()),
        }
    }
}

pub struct Running {
    pub cfg: ServerCfg,
    pub handle: ServerHandle,
    pub addrs: Vec<Addr>,
    pub ctls: Vec<Ctl>,
    pub server_done: Arc<(Mutex<Option<(u64, bool)>>, Condvar)>,
    pub thread: Option<thread::JoinHandle<()>>,
    pub dir: PathBuf,
    pub log_base: usize,
}

static RUN_NO: AtomicU64 = AtomicU64::new(0);

pub fn rundir() -> PathBuf {
    let base = std::env::var("VERIF_RUNDIR").unwrap_or_else(|_| "/verif/target/run/manual".into());
    let d = PathBuf::from(base).join(format!("p{}", std::process::id()));
    let _ = std::fs::create_dir_all(&d);
    d
}

/// Start a server on its own thread. Returns once all workers are up and the handle is available.
/// The next server started by this process is built with `ServerBuilder::system_exit()` (one-shot).
pub static SYSTEM_EXIT_NEXT: AtomicBool = AtomicBool::new(false);
/// The next server started by this process gets its listeners through `ServerBuilder::bind` / `bind_uds` (the builder
/// creates the sockets itself: backlog, address resolution, removal of a stale socket file) instead of `listen` /
/// `listen_uds` with sockets bound by the harness (one-shot). One address per name, so tokens stay = listener index.
pub static BIND_NEXT: AtomicBool = AtomicBool::new(false);

pub fn start(cfg: &ServerCfg, prepare: impl FnOnce(&[Ctl])) -> Result<Running, String> {
    let system_exit = SYSTEM_EXIT_NEXT.swap(false, Ordering::SeqCst);
    let via_bind = BIND_NEXT.swap(false, Ordering::SeqCst);
    let no = RUN_NO.fetch_add(1, Ordering::SeqCst);
    let dir = rundir();
    let next_instance = Arc::new(AtomicU64::new(0));
    let ctls: Vec<Ctl> = (0..cfg.listeners.len()).map(|i| Ctl::new(i as u64, next_instance.clone())).collect();
    prepare(&ctls);

    // bind listeners here so that addresses are known before the server starts
    let mut addrs = Vec::new();
    let mut std_listeners: Vec<(LKind, Option<std::net::TcpListener>, Option<std::os::unix::net::UnixListener>)> = Vec::new();
    for (i, k) in cfg.listeners.iter().enumerate() {
        match k {
            LKind::Tcp => {
                let l = std::net::TcpListener::bind("127.0.0.1:0").map_err(|e| e.to_string())?;
                addrs.push(Addr::Tcp(l.local_addr().unwrap()));
                // via_bind: the port is only reserved; the builder binds it again itself
                std_listeners.push((LKind::Tcp, if via_bind { None } else { Some(l) }, None));
            }
            LKind::Uds => {
                let p = dir.join(format!("s{no}-{i}.sock"));
                let _ = std::fs::remove_file(&p);
                let l = std::os::unix::net::UnixListener::bind(&p).map_err(|e| e.to_string())?;
                addrs.push(Addr::Uds(p));
                // via_bind: the listener is dropped, its socket file stays behind as a stale path for bind_uds to replace
                std_listeners.push((LKind::Uds, None, if via_bind { None } else { Some(l) }));
            }
        }
    }

    let server_done = Arc::new((Mutex::new(None), Condvar::new()));
    let (htx, hrx) = mpsc::channel::<Result<ServerHandle, String>>();
    let cfg2 = cfg.clone();
    let ctls2 = ctls.clone();
    let done2 = server_done.clone();
    let addrs2 = addrs.clone();
    let th = thread::Builder::new()
        .name(format!("vh-server-main-{no}"))
        .spawn(move || {
            let build = move || -> Result<Server, String> {
                let mut b = Server::build()
                    .workers(cfg2.workers)
                    .max_concurrent_connections(cfg2.limit)
                    .shutdown_timeout(cfg2.shutdown_timeout)
                    .backlog(cfg2.backlog);
                if system_exit {
                    b = b.system_exit();
                }
                let mut b = b
                    .disable_signals();
                for (i, (k, t, u)) in std_listeners.into_iter().enumerate() {
                    let ctl = ctls2[i].clone();
                    match k {
                        LKind::Tcp => {
                            let f = HFactory::<actix_rt::net::TcpStream> { ctl, _p: std::marker::PhantomData };
                            b = match (t, &addrs2[i]) {
                                (Some(t), _) => b.listen(listener_name(i), t, move || f.clone()),
                                (None, Addr::Tcp(a)) => b.bind(listener_name(i), *a, move || f.clone()),
                                _ => unreachable!(),
                            }
                            .map_err(|e| e.to_string())?;
                        }
                        LKind::Uds => {
                            let f = HFactory::<actix_rt::net::UnixStream> { ctl, _p: std::marker::PhantomData };
                            b = match (u, &addrs2[i]) {
                                (Some(u), _) => b.listen_uds(listener_name(i), u, move || f.clone()),
                                (None, Addr::Uds(p)) => b.bind_uds(listener_name(i), p, move || f.clone()),
                                _ => unreachable!(),
                            }
                            .map_err(|e| e.to_string())?;
                        }
                    }
                }
                Ok(b.run())
            };
            let body = async move {
                let srv = match build() {
                    Ok(s) => s,
                    Err(e) => {
                        let _ = htx.send(Err(e));
                        return;
                    }
                };
                let _ = htx.send(Ok(srv.handle()));
                let r = srv.await;
                uev("server_resolved", r.is_ok() as u64, 0, 0);
                let (m, c) = &*done2;
                *m.lock().unwrap() = Some((verif::now_us(), r.is_ok()));
                c.notify_all();
            };
            match cfg2.rt {
                RtKind::Actix => {
                    actix_rt::System::new().block_on(body);
                }
                RtKind::Tokio => {
                    let rt = tokio::runtime::Builder::new_current_thread().enable_all().build().unwrap();
                    rt.block_on(body);
                }
            }
        })
        .map_err(|e| e.to_string())?;
    let handle = match hrx.recv_timeout(Duration::from_secs(30)) {
        Ok(Ok(h)) => h,
        Ok(Err(e)) => return Err(format!("server build failed: {e}")),
        Err(_) => return Err("server did not start within 30 s".into()),
    };
    Ok(Running {
        cfg: cfg.clone(),
        handle,
        addrs,
        ctls,
        server_done,
        thread: Some(th),
        dir,
        log_base: 0,
    })
}

// ------------------------------------------------------------------ clients

pub enum Sock {
    Tcp(StdTcp),
    Uds(StdUds),
}

impl Sock {
    fn set_read_timeout(&self, d: Option<Duration>) {
        let _ = match self {
            Sock::Tcp(s) => s.set_read_timeout(d),
            Sock::Uds(s) => s.set_read_timeout(d),
        };
    }
    fn read(&mut self, b: &mut [u8]) -> std::io::Result<usize> {
        match self {
            Sock::Tcp(s) => s.read(b),
            Sock::Uds(s) => s.read(b),
        }
    }
    fn write_all(&mut self, b: &[u8]) -> std::io::Result<()> {
        match self {
            Sock::Tcp(s) => s.write_all(b),
            Sock::Uds(s) => s.write_all(b),
        }
    }
}

pub struct Client {
    pub cid: u64,
    pub listener: usize,
    pub sock: Sock,
    pub served: bool,
    pub closed_by_server: bool,
}

#[derive(Debug, PartialEq, Eq, Clone, Copy)]
pub enum Ack {
    Served,
    ClosedByServer,
    NotYet,
}

static NEXT_CID: AtomicU64 = AtomicU64::new(1);

pub fn fresh_cid() -> u64 {
    NEXT_CID.fetch_add(1, Ordering::SeqCst)
}

impl Client {
    /// connect and send the 9-byte header (cid + mode: b'H' hold, b'F' finish at once)
    pub fn connect(addr: &Addr, listener: usize, mode: u8) -> std::io::Result<Client> {
        let cid = fresh_cid();
        uev("connect_call", cid, listener as u64, 0);
        let sock = match addr {
            Addr::Tcp(a) => StdTcp::connect_timeout(a, Duration::from_secs(5)).map(Sock::Tcp),
            Addr::Uds(p) => StdUds::connect(p).map(Sock::Uds),
        };
        let mut sock = match sock {
            Ok(s) => s,
            Err(e) => {
                uev("connect_ret", cid, 0, e.raw_os_error().unwrap_or(0) as u64);
                return Err(e);
            }
        };
        let mut hdr = [0u8; 9];
        hdr[..8].copy_from_slice(&cid.to_le_bytes());
        hdr[8] = mode;
        let _ = sock.write_all(&hdr);
        uev("connect_ret", cid, 1, 0);
        Ok(Client { cid, listener, sock, served: false, closed_by_server: false })
    }

    /// Has the service acknowledged this connection? Waits up to `wait`.
    pub fn poll_ack(&mut self, wait: Duration) -> Ack {
        if self.served {
            return Ack::Served;
        }
        if self.closed_by_server {
            return Ack::ClosedByServer;
        }
        self.sock.set_read_timeout(Some(wait.max(Duration::from_millis(1))));
        let mut b = [0u8; 1];
        match self.sock.read(&mut b) {
            Ok(1) => {
                self.served = true;
                uev("client_served", self.cid, 0, 0);
                Ack::Served
            }
            Ok(_) => {
                self.closed_by_server = true;
                uev("client_saw_close", self.cid, 0, 0);
                Ack::ClosedByServer
            }
            Err(e) if matches!(e.kind(), std::io::ErrorKind::WouldBlock | std::io::ErrorKind::TimedOut | std::io::ErrorKind::Interrupted) => Ack::NotYet,
            Err(_) => {
                self.closed_by_server = true;
                uev("client_saw_close", self.cid, 1, 0);
                Ack::ClosedByServer
            }
        }
    }

    /// After having been served: did the server close the connection? (non-blocking-ish)
    pub fn server_closed(&mut self, wait: Duration) -> bool {
        self.sock.set_read_timeout(Some(wait.max(Duration::from_millis(1))));
        let mut b = [0u8; 8];
        match self.sock.read(&mut b) {
            Ok(0) => true,
            Ok(_) => false,
            Err(e) if matches!(e.kind(), std::io::ErrorKind::WouldBlock | std::io::ErrorKind::TimedOut | std::io::ErrorKind::Interrupted) => false,
            Err(_) => true,
        }
    }

    pub fn send(&mut self, bytes: &[u8]) {
        let _ = self.sock.write_all(bytes);
    }

    pub fn close(self) {
        uev("client_close", self.cid, 0, 0);
        drop(self.sock);
    }
}

// ------------------------------------------------------------------ waiting on the log

pub const WATCHDOG: Duration = Duration::from_secs(10);

pub enum Waited {
    Ok,
    /// watchdog fired and the process is quiescent: provably stuck
    Stuck,
    /// watchdog fired, process busy: no verdict
    Unknown,
}

/// Wait until `cond(log)` holds.
pub fn wait_log(mut cond: impl FnMut(&[Rec]) -> bool, watchdog: Duration) -> Waited {
    let t0 = Instant::now();
    let mut n = 0u32;
    loop {
        if verif::with_log(|l| cond(l)) {
            return Waited::Ok;
        }
        if t0.elapsed() > watchdog {
            return match vh_core::proc::quiescent(Duration::from_millis(1500)) {
                Some(true) => {
                    if verif::with_log(|l| cond(l)) {
                        Waited::Ok
                    } else {
                        Waited::Stuck
                    }
                }
                _ => {
                    if verif::with_log(|l| cond(l)) {
                        Waited::Ok
                    } else {
                        Waited::Unknown
                    }
                }
            };
        }
        n += 1;
        if n < 20 {
            thread::yield_now();
        } else {
            thread::sleep(Duration::from_micros(300));
        }
    }
}

/// Service names in bind order; deliberately not in lexicographic order (nothing may depend on the names being sorted).
pub fn listener_name(i: usize) -> String {
    ["web", "admin", "zeta", "metrics"].get(i).map(|s| s.to_string()).unwrap_or_else(|| format!("svc{}", 9 - i.min(9)))
}

impl Running {
    /// One worker (the one in the first slot of the accept thread's handle list after `k` earlier faults) dies and is
    /// replaced, `n` times in a row. Afterwards the handle list is no longer in index order, which is the state of any
    /// long-running server that has seen a fault. The caller restarts the recording afterwards.
    pub fn fault_prelude(&self, n: usize, workers: usize) -> Result<(), String> {
        for round in 0..n {
            let adopted_before = verif::with_log(|l| l.iter().filter(|r| matches!(&r.ev, verif::Ev::Interest { kind: "worker", .. })).count());
            let adopted = || verif::with_log(|l| l.iter().filter(|r| matches!(&r.ev, verif::Ev::Interest { kind: "worker", .. })).count()) > adopted_before;
            // bring the rotation to a known place: after a barrier ping the next connection goes to handles[next]
            self.ctls[0].inner.lock().unwrap().panic_next_call = true;
            let victim = Client::connect(&self.addrs[0], 0, b'F').map_err(|e| format!("prelude connect: {e}"))?;
            let mut probes: Vec<Client> = Vec::new();
            let t0 = Instant::now();
            while !adopted() && t0.elapsed() < Duration::from_secs(10) {
                if let Ok(mut c) = Client::connect(&self.addrs[0], 0, b'F') {
                    let t1 = Instant::now();
                    while c.poll_ack(Duration::from_millis(10)) == Ack::NotYet && t1.elapsed() < Duration::from_millis(200) {}
                    probes.push(c);
                }
                thread::sleep(Duration::from_millis(10));
            }
            if !adopted() {
                return Err(format!("prelude fault {round}: no replacement worker adopted within 10 s"));
            }
            victim.close();
            for mut c in probes {
                let cid = c.cid;
                let served = c.served || c.poll_ack(Duration::from_millis(1)) == Ack::Served;
                c.close();
                if served {
                    let _ = wait_log(|l| l.iter().any(|r| matches!(&r.ev, verif::Ev::User { kind: "end", a, .. } if *a == cid)), Duration::from_secs(3));
                }
            }
            thread::sleep(Duration::from_millis(150));
            let _ = self.accept_barrier(false);
            thread::sleep(Duration::from_millis(50));
            match self.accept_barrier(false) {
                Ok(snap) if snap.handles.len() == workers => {}
                Ok(snap) => return Err(format!("prelude fault {round}: {} handles after the replacement", snap.handles.len())),
                Err(_) => return Err(format!("prelude fault {round}: accept thread did not answer")),
            }
        }
        Ok(())
    }

    /// Accept-side barrier: issue a command that is a no-op in the current state and wait until the
    /// accept thread has popped it and gone idle again. Returns the idle snapshot.
    pub fn accept_barrier(&self, paused: bool) -> Result<Snapshot, Waited> {
        self.accept_barrier_at(paused).map(|x| x.0)
    }

    /// Like `accept_barrier`, also returning the log index of the idle snapshot: the log up to that index
    /// is a consistent cut of everything the accept thread had done when it went idle.
    pub fn accept_barrier_at(&self, paused: bool) -> Result<(Snapshot, usize), Waited> {
        let from = verif::log_len();
        let fut_done = if paused {
            block_on_timeout(self.handle.pause(), WATCHDOG).is_some()
        } else {
            block_on_timeout(self.handle.resume(), WATCHDOG).is_some()
        };
        let _ = fut_done;
        let kind = if paused { "pause" } else { "resume" };
        let mut snap: Option<(Snapshot, usize)> = None;
        let w = wait_log(
            |l| {
                let mut seen_interest = false;
                let base = from.min(l.len());
                for (i, r) in l[base..].iter().enumerate() {
                    match &r.ev {
                        Ev::Interest { kind: k, .. } if *k == kind => seen_interest = true,
                        Ev::LoopIdle(s) if seen_interest => {
                            snap = Some((s.clone(), base + i));
                            return true;
                        }
                        _ => {}
                    }
                }
                false
            },
            WATCHDOG,
        );
        match w {
            Waited::Ok => Ok(snap.unwrap()),
            other => Err(other),
        }
    }

    /// Worker-side barrier: every connection whose service future ended has finished dropping its guard
    /// (decrement done, notification - if any - already queued).
    pub fn guard_barrier(&self) -> Waited {
        wait_log(
            |l| {
                let mut ends = 0i64;
                let mut drops_end = 0i64;
                let mut drops_begin = 0i64;
                let mut drained = 0i64;
                for r in l {
                    match &r.ev {
                        Ev::User { kind: "end", .. } => ends += 1,
                        Ev::GuardDropEnd { .. } => drops_end += 1,
                        Ev::GuardDropBegin { .. } => drops_begin += 1,
                        Ev::ShutdownDrained { .. } => drained += 1,
                        _ => {}
                    }
                }
                drops_begin == drops_end && drops_end >= ends + drained
            },
            WATCHDOG,
        )
    }

    /// Pick-up barrier: every dispatched connection has reached `call` (only valid while all services are ready).
    pub fn pickup_barrier(&self) -> Waited {
        wait_log(
            |l| {
                let mut d = 0i64;
                let mut c = 0i64;
                for r in l {
                    match &r.ev {
                        Ev::Dispatch { .. } => d += 1,
                        Ev::DispatchFailed { .. } => d -= 1,
                        Ev::User { kind: "call", .. } => c += 1,
                        Ev::ShutdownDrained { .. } => c += 1,
                        _ => {}
                    }
                }
                d == c
            },
            WATCHDOG,
        )
    }

    /// Wait until every connection that a client closed after it had been identified has ended on the server side
    /// (the release is then in progress and `guard_barrier` covers it).
    pub fn closes_noticed(&self) -> Waited {
        wait_log(
            |l| {
                let mut identified = std::collections::HashSet::new();
                let mut closed = std::collections::HashSet::new();
                let mut ended = std::collections::HashSet::new();
                for r in l {
                    if let Ev::User { kind, a, .. } = &r.ev {
                        match *kind {
                            "identified" => {
                                identified.insert(*a);
                            }
                            "client_close" => {
                                closed.insert(*a);
                            }
                            "end" => {
                                ended.insert(*a);
                            }
                            _ => {}
                        }
                    }
                }
                closed.iter().all(|c| !identified.contains(c) || ended.contains(c))
            },
            WATCHDOG,
        )
    }

    /// Full barrier of DESIGN §4.3. Returns the accept thread's idle snapshot.
    pub fn barrier(&self, paused: bool) -> Result<Snapshot, Waited> {
        self.barrier_at(paused).map(|x| x.0)
    }

    /// Full barrier, also returning the log index of the final idle snapshot (a consistent cut).
    pub fn barrier_at(&self, paused: bool) -> Result<(Snapshot, usize), Waited> {
        match self.closes_noticed() {
            Waited::Ok => {}
            w => return Err(w),
        }
        match self.guard_barrier() {
            Waited::Ok => {}
            w => return Err(w),
        }
        self.accept_barrier(paused)?;
        match self.pickup_barrier() {
            Waited::Ok => {}
            w => return Err(w),
        }
        // the pick-up may have been followed by releases (mode 'F'): settle once more
        match self.guard_barrier() {
            Waited::Ok => {}
            w => return Err(w),
        }
        self.accept_barrier_at(paused)
    }

    /// Issue stop and wait for the stop future; returns (resolved?, elapsed).
    pub fn stop(&self, graceful: bool, wait: Duration) -> (bool, Duration) {
        let t0 = Instant::now();
        uev("cmd_stop", graceful as u64, 0, 0);
        let r = block_on_timeout(self.handle.stop(graceful), wait).is_some();
        uev("stop_resolved", graceful as u64, r as u64, 0);
        (r, t0.elapsed())
    }

    pub fn wait_server_done(&self, wait: Duration) -> bool {
        let (m, c) = &*self.server_done;
        let g = m.lock().unwrap();
        let (g, _) = c.wait_timeout_while(g, wait, |d| d.is_none()).unwrap();
        g.is_some()
    }

    pub fn join(&mut self, wait: Duration) -> bool {
        if !self.wait_server_done(wait) {
            return false;
        }
        if let Some(t) = self.thread.take() {
            let _ = t.join();
        }
        // the scripted services keep the worker task's waker (it pins the worker runtime's I/O driver): let go
        for c in &self.ctls {
            for i in c.inner.lock().unwrap().instances.values_mut() {
                i.waker = None;
            }
        }
        for a in &self.addrs {
            if let Addr::Uds(p) = a {
                let _ = std::fs::remove_file(p);
            }
        }
        true
    }
}

/// Run one throw-away server per runtime flavour so that process-wide lazily created resources
/// (Tokio's global signal pipe, thread-locals, ...) exist before any baseline is taken.
pub fn warm_up() {
    for rt in [RtKind::Actix, RtKind::Tokio] {
        let cfg = ServerCfg { workers: 1, limit: 4, listeners: vec![LKind::Tcp, LKind::Uds], rt, shutdown_timeout: 1, backlog: 16 };
        let base = thread_count();
        if let Ok(mut run) = start(&cfg, |_| {}) {
            if let Ok(mut c) = Client::connect(&run.addrs[0], 0, b'F') {
                let _ = c.poll_ack(Duration::from_millis(500));
                c.close();
            }
            let _ = run.stop(false, Duration::from_secs(10));
            let _ = run.join(Duration::from_secs(10));
        }
        wait_threads_gone(base, Duration::from_secs(10));
    }
}

/// Number of threads of this process.
pub fn thread_count() -> usize {
    std::fs::read_dir("/proc/self/task").map(|d| d.count()).unwrap_or(0)
}

/// Wait until the process is back to `baseline` threads (workers of a stopped server exit asynchronously;
/// their late hook events must not leak into the next scenario's log).
pub fn wait_threads_gone(baseline: usize, max: Duration) -> bool {
    let t0 = Instant::now();
    while thread_count() > baseline {
        if t0.elapsed() > max {
            return false;
        }
        thread::sleep(Duration::from_millis(2));
    }
    true
}

/// Number of open file descriptors of this process.
pub fn open_fds() -> usize {
    std::fs::read_dir("/proc/self/fd").map(|d| d.count()).unwrap_or(0)
}
