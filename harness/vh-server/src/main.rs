//! actix-server monitors C01–C08. Needs the hooks build (`--cfg actix_net_verif`).

#[cfg(actix_net_verif)]
mod bp;
#[cfg(actix_net_verif)]
mod c01;
#[cfg(actix_net_verif)]
mod c05;
#[cfg(actix_net_verif)]
mod c08;
#[cfg(actix_net_verif)]
mod c06;
#[cfg(actix_net_verif)]
mod c07;
#[cfg(actix_net_verif)]
mod engine;
#[cfg(actix_net_verif)]
mod monitor;
#[cfg(actix_net_verif)]
mod probes;

#[cfg(not(actix_net_verif))]
fn main() {
    eprintln!("vh-server: built without --cfg actix_net_verif; the behavioural monitors need the hooks build");
    std::process::exit(2);
}

#[cfg(actix_net_verif)]
pub enum Verdict {
    Held,
    Violated(Vec<monitor::Fail>),
    Inconclusive(String),
}

/// Generic seeded scenario loop: `describe(seed)` gives (shape, replay json); `run(seed, None)` runs one scenario,
/// `run(0, Some(report))` is called once at the end to publish the monitor's counters.
#[cfg(actix_net_verif)]
fn scenario_loop(
    args: &vh_core::Args,
    rep: &mut vh_core::Report,
    n_quick: u64,
    n_thorough: u64,
    enum_total: u64,
    // scenarios every run includes (sharded like the others), whatever the tier
    fixed: &[u64],
    describe: impl Fn(u64) -> (String, vh_core::Value),
    mut run: impl FnMut(u64, Option<&mut vh_core::Report>) -> Verdict,
) {
    use vh_core::{fnv_str, Rng, Value};
    let prop = args.prop.clone();
    let one = |seed: u64, rep: &mut vh_core::Report, run: &mut dyn FnMut(u64, Option<&mut vh_core::Report>) -> Verdict| {
        rep.evaluations += 1;
        let (shape, mut rp) = describe(seed);
        let mut out = run(seed, None);
        let mut tries = 0;
        while let Verdict::Inconclusive(_) = out {
            tries += 1;
            if tries > 2 {
                break;
            }
            out = run(seed, None);
        }
        match out {
            Verdict::Held => rep.nontrivial(fnv_str(&shape)),
            Verdict::Violated(fails) => {
                let mut kept = 0;
                for f in fails {
                    if f.sig.starts_with(&prop) {
                        kept += 1;
                        rp["prop"] = Value::String(prop.clone());
                        rp["case_seed"] = Value::from(seed);
                        rep.violation(f.sig, format!("{} [{}]", f.desc, shape), rp.clone());
                    } else {
                        rep.count("other_property_violations_seen");
                    }
                }
                if kept == 0 {
                    rep.nontrivial(fnv_str(&shape));
                }
            }
            Verdict::Inconclusive(why) => rep.inconclusive(&why),
        }
    };
    if let Some(p) = &args.replay {
        let v: Value = serde_json::from_str(&std::fs::read_to_string(p).expect("replay file")).unwrap();
        let seed = v["case_seed"].as_u64().expect("case_seed");
        for _ in 0..5 {
            one(seed, rep, &mut run);
        }
        rep.note(format!("replay: {} violation(s) in 5 runs", rep.violations_total));
        let _ = run(0, Some(rep));
        rep.rule = "replay of one recorded scenario (5 runs)".into();
        return;
    }
    let n = match args.tier.as_str() {
        "thorough" => n_thorough,
        "miri" => 0,
        _ => n_quick,
    };
    let n = args.extra_u64("n", n);
    let mut rng = Rng::new(args.seed ^ vh_core::fnv_str(&prop)).fork(args.shard);
    // enumerated part of the scenario space (seeds below enum_total are indices into it):
    // thorough walks all of it, quick samples it for half of its budget
    let enum_n = if enum_total == 0 { 0 } else if args.thorough() { enum_total } else { (n / 2).min(enum_total) };
    let mut enumerated_done = 0u64;
    for (i, seed) in fixed.iter().enumerate() {
        if !args.mine(i as u64) {
            continue;
        }
        one(*seed, rep, &mut run);
    }
    if !fixed.is_empty() {
        rep.add("fixed_family_scenarios_all_shards", fixed.len() as u64);
    }
    for i in 0..enum_n + n {
        let r = rng.next_u64();
        let seed = if i < enum_n {
            if args.thorough() || enum_n >= enum_total {
                i
            } else {
                r % enum_total
            }
        } else {
            r | (1 << 40)
        };
        if !args.mine(i) {
            continue;
        }
        if i < enum_n {
            enumerated_done += 1;
        }
        if rep.violations_total >= 12 {
            rep.note("stopped early after 12 violations");
            break;
        }
        one(seed, rep, &mut run);
        if i < 3 * args.nshards {
            let (_, rp) = describe(seed);
            rep.sample(|| rp);
        }
    }
    if enum_total > 0 {
        rep.add("enumerated_scenarios_run", enumerated_done);
        rep.max("max_enumerated_space_size", enum_total);
        if args.thorough() && rep.violations_total < 12 {
            rep.exhaustive = true;
        }
    }
    let _ = run(0, Some(rep));
}

#[cfg(actix_net_verif)]
fn main() {
    use vh_core::{fnv_str, Args, Report, Rng, Value};
    vh_core::install_quiet_panic_hook();
    let args = Args::parse();
    if args.prop == "__warm__" {
        return;
    }
    if args.prop == "__child_signal" {
        c06::child_main(args.extra_u64("timeout", 8));
    }
    let mut rep = Report::new(&args);
    let prop = args.prop.clone();
    if args.tier != "miri" {
        engine::warm_up();
    }
    match prop.as_str() {
        "C02" | "C03" | "C04" => {
            let mut seen = bp::Seen::default();
            let run_one = |scn: &bp::Scn, rep: &mut Report, seen: &mut bp::Seen| {
                rep.evaluations += 1;
                let mut out = bp::run_scenario(scn, seen);
                let mut tries = 0;
                while let bp::Outcome::Inconclusive(_) = out {
                    tries += 1;
                    if tries > 2 {
                        break;
                    }
                    out = bp::run_scenario(scn, seen);
                }
                match out {
                    bp::Outcome::Held => rep.nontrivial(fnv_str(&scn.shape())),
                    bp::Outcome::Violated(fails) => {
                        let mut kept = 0;
                        for f in fails {
                            if f.sig.starts_with(&prop) {
                                kept += 1;
                                let mut rp = scn.to_json();
                                rp["prop"] = Value::String(prop.clone());
                                rep.violation(f.sig, format!("{} [{}]", f.desc, scn.shape()), rp);
                            } else {
                                rep.count("other_property_violations_seen");
                            }
                        }
                        if kept == 0 {
                            rep.nontrivial(fnv_str(&scn.shape()));
                        }
                    }
                    bp::Outcome::Inconclusive(why) => rep.inconclusive(&why),
                }
            };
            if let Some(p) = &args.replay {
                let v: Value = serde_json::from_str(&std::fs::read_to_string(p).expect("replay file")).unwrap();
                if let Some(seed) = v["case_seed"].as_u64() {
                    let mut scn = bp::Scn::from_seed(seed);
                    if prop == "C02" {
                        scn.prior_fault = false;
                    }
                    for _ in 0..5 {
                        run_one(&scn, &mut rep, &mut seen);
                    }
                    rep.note(format!("replay: {} of 5 runs violated", rep.violations_total.min(5)));
                } else {
                    rep.note("replay: probe witnesses are re-checked by the probe sweep");
                    if prop == "C03" {
                        probes::run_c03_probes(&args, &mut rep);
                    } else {
                        probes::run_c04_probes(&args, &mut rep);
                    }
                }
                rep.rule = "replay of one recorded scenario (5 runs)".into();
                std::process::exit(rep.finish(&args));
            }
            // probes first (cheap, exhaustive)
            let probes_on = args.extra_u64("noprobes", 0) == 0;
            if prop == "C03" && probes_on {
                probes::run_c03_probes(&args, &mut rep);
            }
            if prop == "C04" && probes_on {
                probes::run_c04_probes(&args, &mut rep);
            }
            let n = match args.tier.as_str() {
                "thorough" => 1600,
                "miri" => 0,
                _ => 96,
            };
            let n = args.extra_u64("n", n);
            let mut rng = Rng::new(args.seed ^ 0xB0).fork(args.shard);
            // a fixed grid first (all limits x workers), then random shapes
            let mut grid: Vec<u64> = Vec::new();
            for i in 0..n {
                grid.push(rng.next_u64() ^ i);
            }
            for (i, seed) in grid.iter().enumerate() {
                if !args.mine(i as u64) {
                    continue;
                }
                if rep.violations_total >= 6 && probes_on || rep.violations_total >= 40 {
                    rep.note("stopped early after 6 violations");
                    break;
                }
                let mut scn = bp::Scn::from_seed(*seed);
                if prop == "C02" {
                    scn.prior_fault = false;
                }
                // make sure every (workers, limit) pair is visited: the first 12 scenarios of the run form the grid
                if i < 12 {
                    scn.workers = 1 + i % 3;
                    scn.limit = 1 + i / 3;
                }
                run_one(&scn, &mut rep, &mut seen);
                if i < 3 * args.nshards as usize {
                    rep.sample(|| scn.to_json());
                }
            }
            // back-pressure meeting service restarts, accept-error back-off and worker replacement
            if args.tier != "miri" {
                let kinds: &[bp::Special] = match prop.as_str() {
                    "C02" => &[bp::Special::RestartWhileSaturated],
                    "C03" => &[bp::Special::BackoffWithWakeups, bp::Special::RefillAfterReplacement, bp::Special::RestartWhileSaturated],
                    _ => &[bp::Special::RestartWithQueuedConnections, bp::Special::RestartWhileSaturated],
                };
                let per_kind = if args.tier == "thorough" { 160u64 } else { 16 };
                let mut k = 0u64;
                for kind in kinds {
                    for j in 0..per_kind {
                        k += 1;
                        if !args.mine(k) {
                            continue;
                        }
                        rep.evaluations += 1;
                        let sd = args.seed ^ (j << 8) ^ 0x5bec ^ (*kind as u64);
                        let mut out = bp::run_special(*kind, sd, &mut seen);
                        let mut tries = 0;
                        while let bp::Outcome::Inconclusive(_) = out {
                            tries += 1;
                            if tries > 2 {
                                break;
                            }
                            out = bp::run_special(*kind, sd, &mut seen);
                        }
                        match out {
                            bp::Outcome::Held => rep.nontrivial(fnv_str(&format!("{kind:?}{sd}"))),
                            bp::Outcome::Violated(fails) => {
                                let mut kept = 0;
                                for f in fails {
                                    if f.sig.starts_with(&prop) {
                                        kept += 1;
                                        rep.violation(f.sig, f.desc, vh_core::json!({"prop": prop.clone(), "special": format!("{kind:?}"), "special_seed": sd}));
                                    } else {
                                        rep.count("other_property_violations_seen");
                                    }
                                }
                                if kept == 0 {
                                    rep.nontrivial(fnv_str(&format!("{kind:?}{sd}")));
                                }
                            }
                            bp::Outcome::Inconclusive(why) => rep.inconclusive(&why),
                        }
                    }
                }
                rep.add("obs_special_scenarios", seen.special_scenarios);
                rep.add("obs_service_restarts_under_backpressure", seen.service_restarts);
                rep.add("obs_restarts_with_queued_connections", seen.restarts_with_queued_connections);
                rep.add("obs_backoffs_with_wakeups", seen.backoffs_with_wakeups);
                rep.add("obs_refills_after_worker_replacement", seen.refills_after_replacement);
            }
            // C04: servers wider than one availability word (128 workers per word)
            if prop == "C04" && args.tier != "miri" {
                let widths: &[usize] = if args.tier == "thorough" { &[130, 200, 260, 300, 390, 512] } else { &[130, 260] };
                for (k, wd) in widths.iter().enumerate() {
                    if !args.mine(k as u64) {
                        continue;
                    }
                    rep.evaluations += 1;
                    let rt = if k % 2 == 0 { engine::RtKind::Actix } else { engine::RtKind::Tokio };
                    let mut out = bp::run_wide(*wd, args.seed ^ *wd as u64, rt, &mut seen);
                    if let bp::Outcome::Inconclusive(_) = out {
                        out = bp::run_wide(*wd, args.seed ^ *wd as u64, rt, &mut seen);
                    }
                    match out {
                        bp::Outcome::Held => rep.nontrivial(fnv_str(&format!("wide{wd}"))),
                        bp::Outcome::Violated(fails) => {
                            for f in fails {
                                if f.sig.starts_with("C04") {
                                    rep.violation(f.sig, f.desc, vh_core::json!({"prop": "C04", "wide_workers": wd}));
                                } else {
                                    rep.count("other_property_violations_seen");
                                }
                            }
                        }
                        bp::Outcome::Inconclusive(why) => rep.inconclusive(&why),
                    }
                }
                rep.add("obs_wide_server_scenarios", seen.wide_scenarios);
                rep.add("obs_wide_server_releases_checked", seen.wide_releases_checked);
            }
            rep.rule = "back-pressure scenarios on a real server: workers 1..3 x limit 1..4 (full grid first, then seeded shapes) x {TCP, UDS, TCP+UDS} x {Actix System, plain Tokio} x optional failpoints (send<->inc, dec<->wake, recv<->call, accept<->dispatch, handle_waker) x optional concurrent-release stress; \
                        optionally after a prelude in which one worker died and was replaced (handle list no longer in index order; not for C02); phases: first round (sequential clients), saturate all workers, queue extra clients, release one held connection at a time, partial-set round; after every step the barrier (guard-drop completion + no-op command ping + idle snapshot + pick-up) is reached and the quiescent-point rules are evaluated on the ordered hook log: \
                        C02 shadow in-flight <= limit at every Dispatch and service-call concurrency per worker thread <= limit, nothing dispatched while all are saturated; C03 no connection waits in a backlog while a live worker has a free slot; C04 windows of W dispatches hit W distinct workers while unsaturated, a released slot is refilled on the releasing worker, the available set is covered, and at every quiescent point each live worker's availability bit agrees with its counter in the same snapshot. \
                        Mini-scenarios cross back-pressure with other mechanisms: a service fails its readiness check and is re-created while every worker is saturated (nothing may be dispatched), or while its otherwise free worker is being filled through the accept thread (one more client must wait); an accept error's back-off expires while the accept loop keeps being woken (the listener must be re-armed and the waiting connection served); the only worker with room dies and a client arrives during the outage (it is dispatched when the replacement registers). C04 also runs servers with 130..512 workers (limit 2): first W dispatches distinct, all saturated after 2W, nothing dispatched while saturated, and a release on a worker index next to a bitset word boundary lets exactly that worker take the queued client. Plus exhaustive probes of the real Counter / guard / Availability types. Distinct = distinct scenario shape; non-trivial = scenario ran to the end with its barriers reached."
                .into();
            rep.add("obs_quiescent_points", seen.quiescent_points);
            rep.add("obs_quiescent_with_pending_and_no_spare", seen.quiescent_with_pending_and_no_spare);
            rep.add("obs_saturations", seen.saturations);
            rep.add("obs_releases_after_saturation", seen.releases_after_saturation);
            rep.add("obs_redispatch_after_release", seen.redispatch_after_release);
            rep.add("obs_rr_windows_checked", seen.rr_windows_checked);
            rep.add("obs_rr_partial_sets_checked", seen.rr_partial_sets_checked);
            rep.add("obs_dispatch_bound_checks", seen.bound_checks);
            rep.add("obs_release_logged_before_next_accept_step", seen.dec_before_inc_races);
            rep.add("obs_failpoint_delays_fired", seen.failpoint_hits);
            rep.max("max_in_flight_seen", seen.max_in_flight_seen);
            rep.add("obs_boundary_concurrency_checks", seen.boundary_concurrency_checks);
            rep.add("obs_stress_phases", seen.stress_phases);
            rep.add("obs_pause_resume_while_saturated", seen.pause_resume_while_saturated);
            rep.add("obs_releases_while_paused", seen.releases_while_paused);
            rep.add("obs_prior_fault_preludes", seen.prior_fault_preludes);
            rep.add("obs_availability_bit_checks_at_quiescence", seen.avail_bit_checks);
        }
        "C01" => scenario_loop(
            &args,
            &mut rep,
            96,
            1600,
            0,
            &[],
            |seed| {
                let s = c01::Scn::from_seed(seed);
                (s.shape(), s.to_json())
            },
            {
                let mut seen = c01::Seen::default();
                move |seed, fin: Option<&mut Report>| -> Verdict {
                    if let Some(rep) = fin {
                        rep.add("obs_servers_built_with_bind", seen.servers_built_with_bind);
                        rep.add("obs_connections", seen.connections);
                        rep.add("obs_served", seen.served);
                        rep.add("obs_unserved_closed_at_shutdown", seen.unserved_closed_at_shutdown);
                        rep.add("obs_drained_at_shutdown", seen.drained_at_shutdown);
                        rep.add("obs_queued_when_stop_issued", seen.queued_when_stop_issued);
                        rep.add("obs_routing_checks", seen.routing_checks);
                        rep.add("obs_quiescent_points", seen.quiescent_points);
                        rep.add("obs_fd_conservation_checks", seen.fd_conservation_checks);
                        rep.add("obs_multi_listener_scenarios", seen.multi_listener_scenarios);
                        rep.add("obs_aborted_by_client", seen.aborted_by_client);
                        rep.add("obs_failpoint_delays_fired", seen.failpoint_hits);
                        rep.add("obs_pause_resume_cycles", seen.pause_resume_cycles);
                        rep.add("obs_prior_fault_preludes", seen.prior_fault_preludes);
                        rep.add("obs_stops_with_services_not_ready", seen.unready_at_stop);
                        rep.add("obs_faults_with_every_other_worker_saturated", seen.faults_when_saturated);
                        rep.rule = "real server, workers 1..3 x limit 1..3 x listeners {TCP, UDS, TCP+UDS, TCP+TCP} x {Actix, Tokio}: 2..8 client threads each making 2..11 connections (hold / finish-at-once / abort, random early releases), optional pause+resume in the middle, failpoints on both sides of the worker queue; \
                                    then a barrier-reached quiescent point (nothing accepted is undispatched, no open client closed unserved, unserved clients are explained by backlog + capacity), a burst queued behind the limit, stop (graceful or forced) and join; \
                                    oracles over the ordered log and the client sockets: every cid identified at most once, by an instance of the listener it connected to; accepted = dispatched + dropped; after shutdown every client sees its socket closed; no call after a graceful stop resolved; open-fd count returns to its value before the server started. \
                                    Distinct = distinct scenario shape; non-trivial = scenario completed.".into();
                        return Verdict::Held;
                    }
                    match c01::run_scenario(&c01::Scn::from_seed(seed), &mut seen) {
                        c01::Outcome::Held => Verdict::Held,
                        c01::Outcome::Violated(f) => Verdict::Violated(f),
                        c01::Outcome::Inconclusive(w) => Verdict::Inconclusive(w),
                    }
                }
            },
        ),
        "C05" => scenario_loop(
            &args,
            &mut rep,
            160,
            3000,
            c05::ENUM_TOTAL,
            // the back-off window family (tails of length 2..4): always run in full
            &(c05::ENUM_TOTAL..c05::ENUM_TOTAL + c05::WIN_TOTAL).collect::<Vec<u64>>(),
            |seed| {
                let s = c05::Scn::from_seed(seed);
                (s.shape(), s.to_json())
            },
            {
                let mut seen = c05::Seen::default();
                move |seed, fin: Option<&mut Report>| -> Verdict {
                    if let Some(rep) = fin {
                        rep.add("obs_ops", seen.ops);
                        rep.add("obs_quiescent_points", seen.quiescent_points);
                        rep.add("obs_effective_pauses", seen.pauses_effective);
                        rep.add("obs_effective_resumes", seen.resumes_effective);
                        rep.add("obs_idempotent_commands", seen.idempotent_commands);
                        rep.add("obs_nontransient_errors_consumed", seen.nontransient_errors_consumed);
                        rep.add("obs_per_connection_errors_consumed", seen.per_connection_errors_consumed);
                        rep.add("obs_backoffs_observed", seen.backoffs_observed);
                        rep.add("obs_backoffs_expired_and_rearmed", seen.backoffs_expired_and_rearmed);
                        rep.add("obs_connects_while_paused", seen.connects_while_paused);
                        rep.add("obs_served_after_resume_or_backoff", seen.served_after_resume_or_backoff);
                        rep.add("obs_uds_connects", seen.uds_connects);
                        rep.add("obs_tcp_connects", seen.tcp_connects);
                        rep.add("obs_errors_injected_while_paused", seen.errors_while_paused);
                        rep.add("obs_busy_backoff_waits", seen.busy_waits);
                        rep.add("obs_saturating_scenarios", seen.saturating_scenarios);
                        rep.add("obs_releases_while_paused", seen.releases_while_paused);
                        rep.add("obs_backoff_window_scenarios", seen.window_scenarios);
                        rep.add("obs_commands_inside_backoff_window", seen.commands_inside_backoff_window);
                        rep.rule = "command / fault sequences of length 1..5 over {pause, resume, connect(l), inject accept error(l, EMFILE|ENFILE|ENOMEM|ECONNABORTED|ECONNRESET|ECONNREFUSED) + connect, wait past the back-off} on {TCP, UDS, TCP+UDS} listeners x {Actix, Tokio}, plus the back-off window family (a resource error, then every sequence of length 2..4 over {pause, resume, connect} with no wait, i.e. inside the 500 ms back-off; random members with tails up to 6), with failpoints at the pause/resume acknowledgement and in the accept loop, followed by an epilogue (resume, wait); \
                                    after every step a no-op command ping brings the accept thread to an idle snapshot and the rules are evaluated on the ordered hook log: pause flag equals the command history (idempotence), no Dispatch between a processed pause and the next resume, a listener that is neither paused nor backing off is registered, a paused one is not, \
                                    per-connection errors cause no deregistration, resource errors do, a back-off is over after 650 ms, every connect() to a running server's listener succeeds (UDS path still present), and every client of an armed listener gets served. Distinct = distinct (listeners, runtime, op sequence); non-trivial = scenario completed.".into();
                        return Verdict::Held;
                    }
                    match c05::run_scenario(&c05::Scn::from_seed(seed), &mut seen) {
                        c05::Outcome::Held => Verdict::Held,
                        c05::Outcome::Violated(f) => Verdict::Violated(f),
                        c05::Outcome::Inconclusive(w) => Verdict::Inconclusive(w),
                    }
                }
            },
        ),
        "C08" => scenario_loop(
            &args,
            &mut rep,
            72,
            2400,
            c08::REGRESSION,
            &[],
            |seed| {
                let s = c08::Scn::from_seed(seed);
                (s.shape(), s.to_json())
            },
            {
                let mut seen = c08::Seen::default();
                move |seed, fin: Option<&mut Report>| -> Verdict {
                    if let Some(rep) = fin {
                        rep.add("obs_faults_injected", seen.faults_injected);
                        rep.add("obs_faults_detected", seen.faults_detected);
                        rep.add("obs_reroutes_checked", seen.reroutes_checked);
                        rep.add("obs_dropped_no_workers", seen.dropped_no_workers);
                        rep.add("obs_replacements_adopted", seen.replacements_adopted);
                        rep.add("obs_replacement_received_connection", seen.replacement_received_connection);
                        rep.add("obs_guard_drops_with_notification", seen.late_notifications);
                        rep.add("obs_notifications_for_removed_handle", seen.notifications_for_removed_handle);
                        rep.add("obs_double_fault_scenarios", seen.double_faults);
                        rep.add("obs_saturated_victims", seen.saturated_victims);
                        rep.add("obs_single_worker_recoveries", seen.single_worker_recoveries);
                        rep.add("obs_connections_lost_to_fault_info", seen.lost_to_fault);
                        rep.add("obs_quiescent_points", seen.quiescent_points);
                        rep.add("obs_stops_completed", seen.stops_completed);
                        rep.add("obs_undetected_fault_scenarios", seen.undetected_fault_scenarios);
                        rep.add("obs_hammer_scenarios", seen.hammer_scenarios);
                        rep.add("obs_client_connections_not_in_accept_queue_at_quiescence", seen.pending_not_in_accept_queue);
                        rep.rule = "fault sequences on a real server, workers 1..3 x limit 1..3 x {Actix, Tokio}: victims (one, or two at once) idle / partially loaded / saturated; fault = panic in call, panic in poll_ready woken through its waker, readiness error whose re-creation fails; \
                                    victim's connections closed before the fault / after it / after detection / never; replacement factory delay 0/300/500 ms; a failpoint delays the victim's availability notification by 0/150/400 ms (late notification relative to detection and replacement); \
                                    a fixed regression corpus of 24 double-fault histories (saturated second victim, slow replacement, delayed notification) is always run first (quick samples it), thorough walks it completely. \
                                    Oracles over the ordered hook log: the connection whose send discovered the fault is re-dispatched, or dropped only when no handle is left; no Dispatch to the dead index before the replacement's adoption; a replacement is started and adopted and receives a connection; no availability bit without a handle; \
                                    accept_one iteration guard (spin), accept thread exits regularly, stop() completes, pending connections are served once the replacement is up. Distinct = distinct scenario shape.".into();
                        return Verdict::Held;
                    }
                    match c08::run_scenario(&c08::Scn::from_seed(seed), &mut seen) {
                        c08::Outcome::Held => Verdict::Held,
                        c08::Outcome::Violated(f) => Verdict::Violated(f),
                        c08::Outcome::Inconclusive(w) => Verdict::Inconclusive(w),
                    }
                }
            },
        ),
        "C06" => scenario_loop(
            &args,
            &mut rep,
            96,
            1600,
            0,
            &[],
            |seed| {
                let s = c06::Scn::from_seed(seed);
                (s.shape(), s.to_json())
            },
            {
                let mut seen = c06::Seen::default();
                move |seed, fin: Option<&mut Report>| -> Verdict {
                    if let Some(rep) = fin {
                        rep.add("obs_graceful_stops", seen.graceful_stops);
                        rep.add("obs_forced_stops", seen.forced_stops);
                        rep.add("obs_graceful_waited_for_connections", seen.graceful_waited_for_connections);
                        rep.add("obs_graceful_hit_timeout", seen.graceful_hit_timeout);
                        rep.add("obs_forced_with_held_connections", seen.forced_with_held_connections);
                        rep.add("obs_idle_stops", seen.idle_stops);
                        rep.add("obs_stop_twice", seen.stop_twice);
                        rep.add("obs_dropped_stop_futures", seen.dropped_futures);
                        rep.add("obs_stops_while_paused", seen.stops_while_paused);
                        rep.add("obs_racing_bursts", seen.racing_bursts);
                        rep.add("obs_server_future_resolved", seen.server_future_resolved);
                        rep.add("obs_no_dispatch_after_completion_checks", seen.no_dispatch_after_checks);
                        rep.add("obs_late_clients_before_stop", seen.late_clients);
                        rep.add("obs_worker_stall_scenarios", seen.stall_scenarios);
                        rep.add("obs_stops_while_worker_mid_poll", seen.mid_poll_scenarios);
                        rep.add("obs_system_exit_in_plain_tokio_runtime", seen.system_exit_without_system);
                        rep.add("obs_max_shutdown_timeout_scenarios", seen.max_timeout_scenarios);
                        rep.add("signal_runs_repeated_because_signal_preceded_handler_installation", seen.signal_before_handlers);
                        rep.add("obs_sigterm_runs", seen.signal_runs_term);
                        rep.add("obs_sigint_sigquit_runs", seen.signal_runs_forced);
                        rep.max("max_graceful_resolution_ms", seen.max_graceful_ms);
                        rep.rule = "stop scenarios on a real server: workers 1..2 x 0..3 held connections per worker x {graceful, forced} x per-connection completion {closes 100..800 ms after the stop, never} x shutdown_timeout {1,2 s} x variants {plain, stop twice, stop future dropped unpolled, stop while paused, stop racing a burst of connects, stop issued on another thread} x {Actix, Tokio} x {TCP, UDS}; \
                                    oracles are lower bounds and causal orders only: a graceful stop that resolves before shutdown_timeout must find every connection that was in progress already ended (log order); a forced stop must resolve while connections are still held (they are only released after 5 s, and resolving only then is the violation); the stop future(s) and the Server future resolve (a watchdog counts only with a quiescent process); \
                                    the accept thread's exit precedes completion; no Dispatch (and after a graceful stop no service call) follows completion; sockets of clients racing the stop end up closed. One scenario in eight re-executes the harness as a child process with signal handling enabled and sends SIGTERM / SIGINT / SIGQUIT with a connection held (shutdown_timeout 8 s): SIGTERM must keep the process alive, SIGINT/SIGQUIT must end it within 5 s. Distinct = distinct scenario shape.".into();
                        return Verdict::Held;
                    }
                    match c06::run_scenario(&c06::Scn::from_seed(seed), &mut seen) {
                        c06::Outcome::Held => Verdict::Held,
                        c06::Outcome::Violated(f) => Verdict::Violated(f),
                        c06::Outcome::Inconclusive(w) => Verdict::Inconclusive(w),
                    }
                }
            },
        ),
        "C07" => scenario_loop(
            &args,
            &mut rep,
            320,
            8000,
            0,
            &[],
            |seed| {
                let s = c07::Scn::from_seed(seed);
                (s.shape(), s.to_json())
            },
            {
                let mut seen = c07::Seen::default();
                move |seed, fin: Option<&mut Report>| -> Verdict {
                    if let Some(rep) = fin {
                        rep.add("obs_calls_checked", seen.calls_checked);
                        rep.add("obs_full_ready_rounds", seen.ready_rounds_seen);
                        rep.add("obs_pending_results", seen.pending_results);
                        rep.add("obs_readiness_errors", seen.readiness_errors);
                        rep.add("obs_restarts_checked", seen.restarts_checked);
                        rep.add("obs_restart_of_fresh_instance", seen.restart_of_fresh_instance);
                        rep.add("obs_calls_after_pending_phase", seen.calls_delayed_by_pending);
                        rep.add("obs_fifo_checks", seen.fifo_checks);
                        rep.add("obs_connections", seen.connections);
                        rep.add("obs_multi_service_scenarios", seen.multi_service_workers);
                        rep.add("obs_errors_while_other_pending", seen.errors_while_other_pending);
                        rep.add("obs_failures_met_with_queued_connection", seen.quiet_failures);
                        rep.rule = "readiness scripts on a real server: 1..3 services (listeners) per worker x 1..2 workers x {Actix, Tokio}; 2..10 steps over {make instance (service, worker) Pending, make it Ready, readiness Err (re-created instance scripted Ready / Pending / failing again), connect a client to service l}, each step followed by an accept-thread ping; epilogue: all scripts cleared, every client must be served. \
                                    Oracle on the per-thread order of the scripted services' own events: every call is preceded (since the previous call / non-ready result) by Ready from every current instance of that worker; after Err from an instance the next instantiation on that thread is of the same service, happens before any call, and no service is re-created without an error; calls go to current instances; with one worker the calls of a service follow dispatch order; no client is lost or left unserved once everything is ready. Distinct = distinct (workers, services, runtime, op list).".into();
                        return Verdict::Held;
                    }
                    match c07::run_scenario(&c07::Scn::from_seed(seed), &mut seen) {
                        c07::Outcome::Held => Verdict::Held,
                        c07::Outcome::Violated(f) => Verdict::Violated(f),
                        c07::Outcome::Inconclusive(w) => Verdict::Inconclusive(w),
                    }
                }
            },
        ),
        p => {
            eprintln!("vh-server: unknown property {p}");
            std::process::exit(2);
        }
    }
    std::process::exit(rep.finish(&args));
}
