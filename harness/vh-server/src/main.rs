fn main() {}
