//! actix-server monitors C01–C08. Needs the hooks build (`--cfg actix_net_verif`).

#[cfg(actix_net_verif)]
mod bp;
#[cfg(actix_net_verif)]
mod engine;
#[cfg(actix_net_verif)]
mod monitor;
#[cfg(actix_net_verif)]
mod probes;

#[cfg(not(actix_net_verif))]
fn main() {
    eprintln!("vh-server: built without --cfg actix_net_verif; the behavioural monitors need the hooks build");
    std::process::exit(2);
}

#[cfg(actix_net_verif)]
fn main() {
    use vh_core::{fnv_str, Args, Report, Rng, Value};
    vh_core::install_quiet_panic_hook();
    let args = Args::parse();
    if args.prop == "__warm__" {
        return;
    }
    let mut rep = Report::new(&args);
    let prop = args.prop.clone();
    match prop.as_str() {
        "C02" | "C03" | "C04" => {
            let mut seen = bp::Seen::default();
            let run_one = |scn: &bp::Scn, rep: &mut Report, seen: &mut bp::Seen| {
                rep.evaluations += 1;
                let mut out = bp::run_scenario(scn, seen);
                let mut tries = 0;
                while let bp::Outcome::Inconclusive(_) = out {
                    tries += 1;
                    if tries > 2 {
                        break;
                    }
                    out = bp::run_scenario(scn, seen);
                }
                match out {
                    bp::Outcome::Held => rep.nontrivial(fnv_str(&scn.shape())),
                    bp::Outcome::Violated(fails) => {
                        let mut kept = 0;
                        for f in fails {
                            if f.sig.starts_with(&prop) {
                                kept += 1;
                                let mut rp = scn.to_json();
                                rp["prop"] = Value::String(prop.clone());
                                rep.violation(f.sig, format!("{} [{}]", f.desc, scn.shape()), rp);
                            } else {
                                rep.count("other_property_violations_seen");
                            }
                        }
                        if kept == 0 {
                            rep.nontrivial(fnv_str(&scn.shape()));
                        }
                    }
                    bp::Outcome::Inconclusive(why) => rep.inconclusive(&why),
                }
            };
            if let Some(p) = &args.replay {
                let v: Value = serde_json::from_str(&std::fs::read_to_string(p).expect("replay file")).unwrap();
                if let Some(seed) = v["case_seed"].as_u64() {
                    let scn = bp::Scn::from_seed(seed);
                    for _ in 0..5 {
                        run_one(&scn, &mut rep, &mut seen);
                    }
                    rep.note(format!("replay: {} of 5 runs violated", rep.violations_total.min(5)));
                } else {
                    rep.note("replay: probe witnesses are re-checked by the probe sweep");
                    if prop == "C03" {
                        probes::run_c03_probes(&args, &mut rep);
                    } else {
                        probes::run_c04_probes(&args, &mut rep);
                    }
                }
                rep.rule = "replay of one recorded scenario (5 runs)".into();
                std::process::exit(rep.finish(&args));
            }
            // probes first (cheap, exhaustive)
            let probes_on = args.extra_u64("noprobes", 0) == 0;
            if prop == "C03" && probes_on {
                probes::run_c03_probes(&args, &mut rep);
            }
            if prop == "C04" && probes_on {
                probes::run_c04_probes(&args, &mut rep);
            }
            let n = match args.tier.as_str() {
                "thorough" => 1600,
                "miri" => 0,
                _ => 96,
            };
            let n = args.extra_u64("n", n);
            let mut rng = Rng::new(args.seed ^ 0xB0).fork(args.shard);
            // a fixed grid first (all limits x workers), then random shapes
            let mut grid: Vec<u64> = Vec::new();
            for i in 0..n {
                grid.push(rng.next_u64() ^ i);
            }
            for (i, seed) in grid.iter().enumerate() {
                if !args.mine(i as u64) {
                    continue;
                }
                if rep.violations_total >= 6 && probes_on || rep.violations_total >= 40 {
                    rep.note("stopped early after 6 violations");
                    break;
                }
                let mut scn = bp::Scn::from_seed(*seed);
                // make sure every (workers, limit) pair is visited: the first 12 scenarios of the run form the grid
                if i < 12 {
                    scn.workers = 1 + i % 3;
                    scn.limit = 1 + i / 3;
                }
                run_one(&scn, &mut rep, &mut seen);
                if i < 3 * args.nshards as usize {
                    rep.sample(|| scn.to_json());
                }
            }
            rep.rule = "back-pressure scenarios on a real server: workers 1..3 x limit 1..4 (full grid first, then seeded shapes) x {TCP, UDS, TCP+UDS} x {Actix System, plain Tokio} x optional failpoints (send<->inc, dec<->wake, recv<->call, accept<->dispatch, handle_waker) x optional concurrent-release stress; \
                        phases: first round (sequential clients), saturate all workers, queue extra clients, release one held connection at a time, partial-set round; after every step the barrier (guard-drop completion + no-op command ping + idle snapshot + pick-up) is reached and the quiescent-point rules are evaluated on the ordered hook log: \
                        C02 shadow in-flight <= limit at every Dispatch and service-call concurrency per worker thread <= limit, nothing dispatched while all are saturated; C03 no connection waits in a backlog while a live worker has a free slot; C04 windows of W dispatches hit W distinct workers while unsaturated, a released slot is refilled on the releasing worker, the available set is covered. \
                        Plus exhaustive probes of the real Counter / guard / Availability types. Distinct = distinct scenario shape; non-trivial = scenario ran to the end with its barriers reached."
                .into();
            rep.add("obs_quiescent_points", seen.quiescent_points);
            rep.add("obs_quiescent_with_pending_and_no_spare", seen.quiescent_with_pending_and_no_spare);
            rep.add("obs_saturations", seen.saturations);
            rep.add("obs_releases_after_saturation", seen.releases_after_saturation);
            rep.add("obs_redispatch_after_release", seen.redispatch_after_release);
            rep.add("obs_rr_windows_checked", seen.rr_windows_checked);
            rep.add("obs_rr_partial_sets_checked", seen.rr_partial_sets_checked);
            rep.add("obs_dispatch_bound_checks", seen.bound_checks);
            rep.add("obs_release_logged_before_next_accept_step", seen.dec_before_inc_races);
            rep.add("obs_failpoint_delays_fired", seen.failpoint_hits);
            rep.max("max_in_flight_seen", seen.max_in_flight_seen);
            rep.add("obs_boundary_concurrency_checks", seen.boundary_concurrency_checks);
            rep.add("obs_stress_phases", seen.stress_phases);
        }
        p => {
            eprintln!("vh-server: unknown property {p}");
            std::process::exit(2);
        }
    }
    std::process::exit(rep.finish(&args));
}
