//! C05 — pause, resume and accept-error back-off never strand a listener.

use std::{
    collections::BTreeMap,
    thread,
    time::{Duration, Instant},
};

use actix_server::verif::{self, Ev, Failpoint};
use vh_core::{json, Rng, Value};

use crate::{
    engine::{self, Ack, Client, LKind, RtKind, ServerCfg, Waited},
    monitor::{self, fail, Fail},
};

pub const EMFILE: i32 = 24;
pub const ENFILE: i32 = 23;
pub const ENOMEM: i32 = 12;
pub const ECONNABORTED: i32 = 103;
pub const ECONNRESET: i32 = 104;
pub const ECONNREFUSED: i32 = 111;

#[derive(Clone, Copy, Debug, PartialEq, Eq)]
pub enum Op {
    Pause,
    Resume,
    Connect(usize),
    /// queue an accept error for listener l, then connect one client to trigger the accept
    Inject(usize, i32),
    /// sleep past the 500 ms back-off
    Wait,
    /// (saturating variant) close the held connection: the only worker drops below its limit of 1
    Release,
}

fn per_connection(errno: i32) -> bool {
    matches!(errno, ECONNABORTED | ECONNRESET | ECONNREFUSED)
}

#[derive(Clone, Debug)]
pub struct Scn {
    pub seed: u64,
    pub listeners: Vec<LKind>,
    pub rt: RtKind,
    pub ops: Vec<Op>,
    pub failpoints: bool,
    /// one worker with `max_concurrent_connections(1)` whose only slot is taken by a held connection before the ops
    /// start: connections queue up in the backlog until `Release`
    pub saturate: bool,
}

/// Enumerated grammar: listener kind {TCP, UDS} x failpoints {off, on} x every op sequence of length 1..4 over
/// {pause, resume, connect, inject EMFILE, inject ECONNABORTED, wait} (single listener).
const ENUM_ALPHA: usize = 6;
const ENUM_SEQS: u64 = 6 + 36 + 216 + 1296;
pub const ENUM_TOTAL: u64 = ENUM_SEQS * 4;

/// Back-off window family: a resource error (EMFILE) puts the listener into its 500 ms back-off, then every sequence
/// of length 2..4 over {pause, resume, connect} follows without any wait, i.e. inside that window (state left behind
/// by the back-off meets pause / resume). Index = 2 * sequence number + listener kind.
const WIN_SEQS: u64 = 9 + 27 + 81;
pub const WIN_TOTAL: u64 = WIN_SEQS * 2;
/// the part of it with tails of length 2..3 (what the quick tier always runs)
pub const WIN_SHORT: u64 = (9 + 27) * 2;

impl Scn {
    fn window(index: u64) -> Scn {
        let uds = index % 2 == 1;
        let mut k = index / 2;
        let mut len = 2;
        let mut block = 9u64;
        while k >= block {
            k -= block;
            len += 1;
            block *= 3;
        }
        let mut ops = vec![Op::Inject(0, EMFILE)];
        for _ in 0..len {
            ops.push(match k % 3 {
                0 => Op::Pause,
                1 => Op::Resume,
                _ => Op::Connect(0),
            });
            k /= 3;
        }
        Scn {
            seed: ENUM_TOTAL + index,
            listeners: vec![if uds { LKind::Uds } else { LKind::Tcp }],
            rt: if index % 3 == 0 { RtKind::Tokio } else { RtKind::Actix },
            ops,
            failpoints: false,
            saturate: false,
        }
    }

    fn enumerated(index: u64) -> Scn {
        let variant = index / ENUM_SEQS;
        let mut k = index % ENUM_SEQS;
        let mut len = 1;
        let mut block = ENUM_ALPHA as u64;
        while k >= block {
            k -= block;
            len += 1;
            block *= ENUM_ALPHA as u64;
        }
        let mut ops = Vec::new();
        for _ in 0..len {
            ops.push(match k % ENUM_ALPHA as u64 {
                0 => Op::Pause,
                1 => Op::Resume,
                2 => Op::Connect(0),
                3 => Op::Inject(0, EMFILE),
                4 => Op::Inject(0, ECONNABORTED),
                _ => Op::Wait,
            });
            k /= ENUM_ALPHA as u64;
        }
        Scn {
            seed: index,
            listeners: vec![if variant % 2 == 0 { LKind::Tcp } else { LKind::Uds }],
            rt: if index % 3 == 0 { RtKind::Tokio } else { RtKind::Actix },
            ops,
            failpoints: variant / 2 == 1,
            saturate: false,
        }
    }
}

const ERRNOS: [i32; 6] = [EMFILE, ENFILE, ENOMEM, ECONNABORTED, ECONNRESET, ECONNREFUSED];

impl Scn {
    /// index into the enumerated sequence space (thorough) or a seeded random sequence
    pub fn from_seed(seed: u64) -> Scn {
        if seed < ENUM_TOTAL {
            return Scn::enumerated(seed);
        }
        if seed < ENUM_TOTAL + WIN_TOTAL {
            return Scn::window(seed - ENUM_TOTAL);
        }
        let mut r = Rng::new(seed);
        if r.chance(1, 5) {
            // random member of the back-off window family: any resource error, tails up to 6, two listeners possible
            let listeners = match r.usize(3) {
                0 => vec![LKind::Tcp],
                1 => vec![LKind::Uds],
                _ => vec![LKind::Tcp, LKind::Uds],
            };
            let nl = listeners.len();
            let mut ops = vec![Op::Inject(r.usize(nl), *r.pick(&[EMFILE, ENFILE, ENOMEM]))];
            for _ in 0..2 + r.usize(5) {
                ops.push(match r.usize(3) {
                    0 => Op::Pause,
                    1 => Op::Resume,
                    _ => Op::Connect(r.usize(nl)),
                });
            }
            return Scn { seed, listeners, rt: if r.chance(1, 3) { RtKind::Tokio } else { RtKind::Actix }, ops, failpoints: r.chance(1, 3), saturate: false };
        }
        if r.chance(1, 6) {
            // saturating variant: [pause | connect]* release [connect | resume | pause]*
            let mut ops = Vec::new();
            for _ in 0..1 + r.usize(3) {
                ops.push(if r.chance(1, 2) { Op::Pause } else { Op::Connect(0) });
            }
            ops.push(Op::Release);
            for _ in 0..r.usize(3) {
                ops.push(match r.usize(3) {
                    0 => Op::Pause,
                    1 => Op::Resume,
                    _ => Op::Connect(0),
                });
            }
            return Scn {
                seed,
                listeners: vec![if r.chance(1, 3) { LKind::Uds } else { LKind::Tcp }],
                rt: if r.chance(1, 3) { RtKind::Tokio } else { RtKind::Actix },
                ops,
                failpoints: r.chance(1, 2),
                saturate: true,
            };
        }
        let listeners = match r.usize(3) {
            0 => vec![LKind::Tcp],
            1 => vec![LKind::Uds],
            _ => vec![LKind::Tcp, LKind::Uds],
        };
        let nl = listeners.len();
        let len = 1 + r.usize(5);
        let mut ops = Vec::new();
        let mut waits = 0;
        for _ in 0..len {
            let op = match r.usize(9) {
                0 | 1 => Op::Pause,
                2 | 3 => Op::Resume,
                4 | 5 => Op::Connect(r.usize(nl)),
                6 | 7 => Op::Inject(r.usize(nl), *r.pick(&ERRNOS)),
                _ => {
                    if waits < 2 {
                        waits += 1;
                        Op::Wait
                    } else {
                        Op::Connect(r.usize(nl))
                    }
                }
            };
            ops.push(op);
        }
        Scn {
            seed,
            listeners,
            rt: if r.chance(1, 3) { RtKind::Tokio } else { RtKind::Actix },
            ops,
            failpoints: r.chance(1, 2),
            saturate: false,
        }
    }
    pub fn shape(&self) -> String {
        format!("{:?} {:?} {:?} f{}{}", self.listeners, self.rt, self.ops, self.failpoints as u8, if self.saturate { " saturated" } else { "" })
    }
    pub fn to_json(&self) -> Value {
        json!({"case_seed": self.seed, "shape": self.shape()})
    }
}

#[derive(Default, Clone)]
pub struct Seen {
    pub ops: u64,
    pub quiescent_points: u64,
    pub pauses_effective: u64,
    pub resumes_effective: u64,
    pub idempotent_commands: u64,
    pub nontransient_errors_consumed: u64,
    pub per_connection_errors_consumed: u64,
    pub backoffs_observed: u64,
    pub backoffs_expired_and_rearmed: u64,
    pub connects_while_paused: u64,
    pub served_after_resume_or_backoff: u64,
    pub uds_connects: u64,
    pub tcp_connects: u64,
    pub errors_while_paused: u64,
    pub busy_waits: u64,
    pub releases_while_paused: u64,
    pub saturating_scenarios: u64,
    pub window_scenarios: u64,
    pub commands_inside_backoff_window: u64,
}

pub enum Outcome {
    Held,
    Violated(Vec<Fail>),
    Inconclusive(String),
}

struct PendingClient {
    c: Client,
    connected_at: Instant,
}

fn registered_shadow(log: &[verif::Rec]) -> BTreeMap<usize, bool> {
    let mut m = BTreeMap::new();
    for r in log {
        match &r.ev {
            Ev::RegisterAttempt { token } => {
                m.insert(*token, true);
            }
            Ev::DeregisterAttempt { token } => {
                m.insert(*token, false);
            }
            _ => {}
        }
    }
    m
}

pub fn run_scenario(scn: &Scn, seen: &mut Seen) -> Outcome {
    let baseline_threads = engine::thread_count();
    verif::clear_injected_accept_errors();
    verif::set_abort_spin(false);
    if scn.failpoints {
        verif::set_failpoints(
            &[
                ("server:pause-ack", Failpoint { per_mille: 500, min_us: 50, max_us: 1500 }),
                ("server:resume-ack", Failpoint { per_mille: 500, min_us: 50, max_us: 1500 }),
                ("accept:handle-waker", Failpoint { per_mille: 300, min_us: 20, max_us: 800 }),
                ("accept:accept-dispatch", Failpoint { per_mille: 300, min_us: 20, max_us: 800 }),
            ],
            scn.seed,
        );
    } else {
        verif::set_failpoints(&[], 0);
    }
    verif::start_recording();
    let cfg = if scn.saturate {
        ServerCfg { workers: 1, limit: 1, listeners: scn.listeners.clone(), rt: scn.rt, shutdown_timeout: 1, backlog: 128 }
    } else {
        ServerCfg { workers: 2, limit: 64, listeners: scn.listeners.clone(), rt: scn.rt, shutdown_timeout: 1, backlog: 128 }
    };
    let mut run = match engine::start(&cfg, |_| {}) {
        Ok(r) => r,
        Err(e) => return Outcome::Inconclusive(e),
    };
    let mut fails: Vec<Fail> = Vec::new();
    let mut paused = false;
    // un-consumed injected errors per listener, back-off start per listener
    let mut injected_pending: Vec<Vec<i32>> = vec![Vec::new(); scn.listeners.len()];
    let mut injected_all: Vec<Vec<i32>> = vec![Vec::new(); scn.listeners.len()];
    let mut handled: Vec<usize> = vec![0; scn.listeners.len()];
    let mut backoff_since: Vec<Option<Instant>> = vec![None; scn.listeners.len()];
    let mut clients: Vec<PendingClient> = Vec::new();
    let mut inconclusive: Option<String> = None;

    // saturating variant: the only slot of the only worker is taken before the ops start
    let mut holder: Option<Client> = None;
    if scn.saturate {
        seen.saturating_scenarios += 1;
        match Client::connect(&run.addrs[0], 0, b'H') {
            Ok(mut c) => {
                let t0 = Instant::now();
                while c.poll_ack(Duration::from_millis(20)) == Ack::NotYet && t0.elapsed() < Duration::from_secs(5) {}
                if !c.served {
                    inconclusive = Some("holder connection not served".into());
                }
                holder = Some(c);
            }
            Err(e) => inconclusive = Some(format!("holder connect: {e}")),
        }
        let _ = run.barrier(false);
    }

    if matches!(scn.ops.first(), Some(Op::Inject(_, e)) if !per_connection(*e)) && !scn.ops.contains(&Op::Wait) {
        seen.window_scenarios += 1;
    }
    let mut ops: Vec<Op> = scn.ops.clone();
    if inconclusive.is_some() {
        ops.clear();
    }
    // epilogue: bring the server back to normal and require everything to be served
    if holder.is_some() && !ops.contains(&Op::Release) {
        ops.push(Op::Release);
    }
    ops.push(Op::Resume);
    ops.push(Op::Wait);

    'ops: for (step, op) in ops.iter().enumerate() {
        seen.ops += 1;
        let epilogue = step >= scn.ops.len();
        match op {
            Op::Pause => {
                if backoff_since.iter().any(|b| b.map_or(false, |t| t.elapsed() < Duration::from_millis(450))) {
                    seen.commands_inside_backoff_window += 1;
                }
                if paused {
                    seen.idempotent_commands += 1;
                } else {
                    seen.pauses_effective += 1;
                }
                if engine::block_on_timeout(run.handle.pause(), engine::WATCHDOG).is_none() {
                    inconclusive = Some("pause() future did not resolve".into());
                    break 'ops;
                }
                paused = true;
            }
            Op::Resume => {
                if backoff_since.iter().any(|b| b.map_or(false, |t| t.elapsed() < Duration::from_millis(450))) {
                    seen.commands_inside_backoff_window += 1;
                }
                if !paused {
                    seen.idempotent_commands += 1;
                } else {
                    seen.resumes_effective += 1;
                }
                if engine::block_on_timeout(run.handle.resume(), engine::WATCHDOG).is_none() {
                    inconclusive = Some("resume() future did not resolve".into());
                    break 'ops;
                }
                paused = false;
            }
            Op::Connect(l) | Op::Inject(l, _) => {
                let l = *l;
                if let Op::Inject(_, errno) = op {
                    verif::inject_accept_errors(&run.addrs[l].display_key(), &[*errno]);
                    injected_pending[l].push(*errno);
                    injected_all[l].push(*errno);
                    if paused {
                        seen.errors_while_paused += 1;
                    }
                }
                match scn.listeners[l] {
                    LKind::Tcp => seen.tcp_connects += 1,
                    LKind::Uds => seen.uds_connects += 1,
                }
                if paused {
                    seen.connects_while_paused += 1;
                }
                match Client::connect(&run.addrs[l], l, b'F') {
                    Ok(c) => clients.push(PendingClient { c, connected_at: Instant::now() }),
                    Err(e) => {
                        // the listening socket exists for as long as the server runs: a client must be able to reach it
                        fails.push(fail(
                            format!(
                                "C05:listener-unreachable:{}",
                                match scn.listeners[l] {
                                    LKind::Tcp => "tcp",
                                    LKind::Uds => "uds",
                                }
                            ),
                            format!(
                                "step {step} ({op:?}): connect to listener {l} ({:?}) failed with {e} while the server is running (ops so far: {:?})",
                                run.addrs[l],
                                &ops[..=step]
                            ),
                        ));
                        break 'ops;
                    }
                }
            }
            Op::Wait => {
                if !epilogue && (scn.seed ^ step as u64) % 2 == 1 {
                    // a busy back-off: the accept loop keeps being woken (a no-op command every 100 ms) while the
                    // deadline passes; the listener must be re-armed by the wake-up that follows the deadline
                    seen.busy_waits += 1;
                    for _ in 0..7 {
                        thread::sleep(Duration::from_millis(100));
                        let _ = run.accept_barrier(paused);
                    }
                } else {
                    thread::sleep(Duration::from_millis(if epilogue { 700 } else { 650 }));
                }
            }
            Op::Release => {
                if let Some(c) = holder.take() {
                    if paused {
                        seen.releases_while_paused += 1;
                    }
                    let cid = c.cid;
                    c.close();
                    // the release is complete when the worker's guard has been dropped and its notification handled
                    let _ = engine::wait_log(|l| l.iter().any(|r| matches!(&r.ev, Ev::User { kind: "end", a, .. } if *a == cid)), engine::WATCHDOG);
                    let _ = run.guard_barrier();
                }
            }
        }

        // ---- barrier + quiescent-point rules
        let (snap, cut) = match run.accept_barrier_at(paused) {
            Ok(s) => s,
            Err(Waited::Stuck) => {
                fails.push(fail(
                    "C05:accept-thread-stuck",
                    format!("after step {step} ({op:?}) the accept thread never processed the next command; process quiescent; last events {:?}", monitor::tail(&verif::log_since(0), 10)),
                ));
                break 'ops;
            }
            Err(_) => {
                inconclusive = Some("barrier watchdog".into());
                break 'ops;
            }
        };
        seen.quiescent_points += 1;
        // everything is judged on the consistent cut that ends with the idle snapshot
        let mut log = verif::log_since(0);
        log.truncate(cut + 1);
        // which injected errors were consumed
        let mut consumed: BTreeMap<String, usize> = BTreeMap::new();
        for r in &log {
            if let Ev::InjectedAcceptError { addr, .. } = &r.ev {
                *consumed.entry(addr.clone()).or_insert(0) += 1;
            }
        }
        for (l, _) in scn.listeners.iter().enumerate() {
            let key = run.addrs[l].display_key();
            let n_consumed = *consumed.get(&key).unwrap_or(&0);
            while handled[l] < n_consumed.min(injected_all[l].len()) {
                let e = injected_all[l][handled[l]];
                handled[l] += 1;
                if per_connection(e) {
                    seen.per_connection_errors_consumed += 1;
                } else {
                    seen.nontransient_errors_consumed += 1;
                    backoff_since[l] = Some(Instant::now());
                }
            }
            injected_pending[l] = injected_all[l][handled[l]..].to_vec();
        }
        // I6: the pause flag follows the commands, however often they are repeated
        if snap.paused != paused {
            fails.push(fail(
                "C05:pause-state-diverged",
                format!("after step {step} ({op:?}) the accept loop has paused={} but the command history says {paused}; ops {:?}", snap.paused, &ops[..=step]),
            ));
        }
        let reg = registered_shadow(&log);
        for (l, _) in scn.listeners.iter().enumerate() {
            let backoff = snap.listeners.iter().find(|(t, _)| *t == l).map(|x| x.1).unwrap_or(false);
            let registered = *reg.get(&l).unwrap_or(&false);
            if backoff {
                seen.backoffs_observed += 1;
            }
            // I2: a listener that is neither paused nor backing off is armed
            if !snap.paused && !backoff && !registered {
                fails.push(fail(
                    "C05:listener-stranded",
                    format!(
                        "after step {step} ({op:?}): listener {l} is not registered with the poll although the server is not paused and no back-off is pending; ops {:?}; last events {:?}",
                        &ops[..=step],
                        monitor::tail(&log, 10)
                    ),
                ));
            }
            // while paused nothing is armed
            if snap.paused && registered && !backoff {
                fails.push(fail(
                    "C05:listener-armed-while-paused",
                    format!("after step {step} ({op:?}): listener {l} is registered although the server is paused; ops {:?}", &ops[..=step]),
                ));
            }
            // I3: a back-off that started more than 600 ms ago has expired
            if let Some(t0) = backoff_since[l] {
                if backoff && t0.elapsed() > Duration::from_millis(650) && matches!(op, Op::Wait) {
                    fails.push(fail(
                        "C05:backoff-never-expires",
                        format!("listener {l} is still backing off {} ms after the accept error; ops {:?}", t0.elapsed().as_millis(), &ops[..=step]),
                    ));
                }
                if !backoff {
                    if registered || snap.paused {
                        seen.backoffs_expired_and_rearmed += 1;
                    }
                    backoff_since[l] = None;
                }
            }
        }
        // I4: how the accept loop reacted to each injected error (events of the accept thread until it goes idle)
        for (i, r) in log.iter().enumerate() {
            if let Ev::InjectedAcceptError { addr, kind } = &r.ev {
                let l = match (0..scn.listeners.len()).find(|l| run.addrs[*l].display_key() == *addr) {
                    Some(l) => l,
                    None => continue,
                };
                let per_conn = matches!(kind, std::io::ErrorKind::ConnectionAborted | std::io::ErrorKind::ConnectionReset | std::io::ErrorKind::ConnectionRefused);
                let mut deregistered = false;
                for n in &log[i + 1..] {
                    if n.thread != r.thread {
                        continue;
                    }
                    match &n.ev {
                        Ev::DeregisterAttempt { token } if *token == l => {
                            deregistered = true;
                            break;
                        }
                        Ev::LoopIdle(_) | Ev::Interest { .. } | Ev::Accepted { .. } | Ev::InjectedAcceptError { .. } => break,
                        _ => {}
                    }
                }
                if per_conn && deregistered {
                    fails.push(fail(
                        "C05:per-connection-error-caused-backoff",
                        format!("per-connection accept error {kind:?} on listener {l} made the accept loop deregister the listener (later connections are delayed); ops {:?}", &ops[..=step]),
                    ));
                }
                if !per_conn && !deregistered {
                    fails.push(fail(
                        "C05:resource-error-without-backoff",
                        format!("accept error {kind:?} on listener {l} was not followed by the back-off (deregistration) the accept loop promises for resource exhaustion; ops {:?}", &ops[..=step]),
                    ));
                }
            }
        }
        // I1: no dispatch between an effective pause and the next resume
        {
            let mut in_pause = false;
            for r in &log {
                match &r.ev {
                    Ev::Interest { kind: "pause", .. } => in_pause = true,
                    Ev::Interest { kind: "resume", .. } => in_pause = false,
                    Ev::Dispatch { token, .. } if in_pause => {
                        fails.push(fail(
                            "C05:dispatch-while-paused",
                            format!("connection of listener {token} was dispatched (event #{}) after the accept loop had processed a pause and before it processed a resume", r.seq),
                        ));
                        break;
                    }
                    _ => {}
                }
            }
        }
        // pending clients of armed listeners are served (unless the only slot is still held)
        if !snap.paused && holder.is_none() {
            for (l, _) in scn.listeners.iter().enumerate() {
                let backoff = snap.listeners.iter().find(|(t, _)| *t == l).map(|x| x.1).unwrap_or(false);
                if backoff || !injected_pending[l].is_empty() {
                    continue;
                }
                // the listener has been armed since before the barrier: everything connected to it must get served
                for pc in clients.iter_mut().filter(|pc| pc.c.listener == l && !pc.c.served) {
                    let mut ack = Ack::NotYet;
                    let t0 = Instant::now();
                    while t0.elapsed() < Duration::from_secs(3) {
                        ack = pc.c.poll_ack(Duration::from_millis(20));
                        if ack != Ack::NotYet {
                            break;
                        }
                    }
                    match ack {
                        Ack::Served => seen.served_after_resume_or_backoff += 1,
                        Ack::ClosedByServer => fails.push(fail(
                            "C05:pending-connection-dropped",
                            format!("client {} of listener {l} was closed by the server without being served; ops {:?}", pc.c.cid, &ops[..=step]),
                        )),
                        Ack::NotYet => {
                            // not served 3 s after the barrier: a verdict only if the whole process has gone quiet
                            if vh_core::proc::quiescent(Duration::from_millis(1500)) != Some(true) || pc.c.poll_ack(Duration::from_millis(1)) != Ack::NotYet {
                                inconclusive = Some("pending client not served yet but the process is still busy".into());
                                break 'ops;
                            }
                            let (c, _) = monitor::shadow(&verif::log_since(0), 64, false);
                            let waiting = *c.connects_ok.get(&l).unwrap_or(&0) as i64 - *c.accepted.get(&l).unwrap_or(&0) as i64;
                            fails.push(fail(
                                "C05:pending-connection-not-accepted",
                                format!(
                                    "after step {step} ({op:?}): client {} connected to listener {l} {} ms ago is not served although the listener should be armed (paused=false, no back-off, no injected error left) and the process is quiescent; {waiting} connection(s) still in its backlog; ops {:?}; last events {:?}",
                                    pc.c.cid,
                                    pc.connected_at.elapsed().as_millis(),
                                    &ops[..=step],
                                    monitor::tail(&verif::log_since(0), 10)
                                ),
                            ));
                        }
                    }
                }
            }
        }
        if !fails.is_empty() {
            break 'ops;
        }
    }

    // ---- teardown
    let (stopped, _) = run.stop(false, Duration::from_secs(15));
    for pc in clients {
        pc.c.close();
    }
    let joined = run.join(Duration::from_secs(15));
    verif::stop_recording();
    verif::clear_injected_accept_errors();
    let gone = engine::wait_threads_gone(baseline_threads, Duration::from_secs(10));
    if !fails.is_empty() {
        return Outcome::Violated(fails);
    }
    if let Some(w) = inconclusive {
        return Outcome::Inconclusive(w);
    }
    if !stopped || !joined || !gone {
        return Outcome::Inconclusive("teardown did not finish".into());
    }
    Outcome::Held
}
