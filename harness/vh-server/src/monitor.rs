//! Oracles over the ordered hook log.

#![allow(dead_code)]

use std::collections::{BTreeMap, HashMap};

use actix_server::verif::{Ev, Rec};

#[derive(Clone, Debug)]
pub struct Fail {
    pub sig: String,
    pub desc: String,
}

pub fn fail(sig: impl Into<String>, desc: impl Into<String>) -> Fail {
    Fail { sig: sig.into(), desc: desc.into() }
}

/// One line per event, for witnesses.
pub fn render(r: &Rec) -> String {
    let e = match &r.ev {
        Ev::LoopIdle(s) => format!(
            "LoopIdle paused={} handles={:?} next={} avail={:?} counters={:?} backoff={:?}",
            s.paused,
            s.handles,
            s.next,
            s.avail.iter().take(4).map(|b| *b as u8).collect::<Vec<_>>(),
            s.counters,
            s.listeners
        ),
        Ev::User { kind, a, b, c } => format!("{kind}({a},{b},{c})"),
        other => format!("{other:?}"),
    };
    format!("#{} t={}us th={:04x} {}", r.seq, r.t_us, r.thread & 0xffff, e)
}

pub fn tail(log: &[Rec], n: usize) -> Vec<String> {
    log.iter()
        .rev()
        .filter(|r| !matches!(&r.ev, Ev::User { kind: "poll_ready", .. }))
        .take(n)
        .map(render)
        .collect::<Vec<_>>()
        .into_iter()
        .rev()
        .collect()
}

/// Events around position `at`, skipping idle snapshots.
pub fn around(log: &[Rec], at: usize, before: usize, after: usize) -> Vec<String> {
    let lo = at.saturating_sub(before * 3);
    let hi = (at + after * 3).min(log.len());
    log[lo..hi]
        .iter()
        .filter(|r| !matches!(&r.ev, Ev::LoopIdle(_) | Ev::User { kind: "poll_ready", .. }))
        .map(render)
        .collect()
}

#[derive(Default, Debug, Clone)]
pub struct Counts {
    /// per worker idx: dispatched and not yet released (release = guard drop *begun*)
    pub in_flight: BTreeMap<usize, i64>,
    pub dispatch_total: u64,
    pub dispatch_failed: u64,
    pub accepted: BTreeMap<usize, u64>,
    pub connects_ok: BTreeMap<usize, u64>,
    pub calls: u64,
    pub identified: u64,
    pub ends: u64,
    pub drained: u64,
    pub dropped_no_workers: u64,
    pub saturations_seen: u64,
    pub max_in_flight: i64,
}

/// C02's shadow: walks the log, asserting the per-worker bound at every Dispatch.
/// `until` limits the walk (exclusive). Returns counts and the first violation.
pub fn shadow(log: &[Rec], limit: usize, faults_present: bool) -> (Counts, Option<Fail>) {
    let mut c = Counts::default();
    let mut first: Option<Fail> = None;
    // cid -> listener of the connect
    for (i, r) in log.iter().enumerate() {
        match &r.ev {
            Ev::Dispatch { worker, token, fd } => {
                c.dispatch_total += 1;
                let v = c.in_flight.entry(*worker).or_insert(0);
                *v += 1;
                if *v as usize == limit {
                    c.saturations_seen += 1;
                }
                c.max_in_flight = c.max_in_flight.max(*v);
                if *v as usize > limit && !faults_present && first.is_none() {
                    first = Some(fail(
                        "C02:dispatch-beyond-limit",
                        format!(
                            "worker {worker} has {} connections dispatched and not released, limit {limit}, at Dispatch #{} (token {token}, fd {fd}); context: {:?}",
                            *v,
                            r.seq,
                            around(log, i, 8, 2)
                        ),
                    ));
                }
            }
            Ev::DispatchFailed { worker, .. } => {
                c.dispatch_failed += 1;
                *c.in_flight.entry(*worker).or_insert(0) -= 1;
            }
            Ev::GuardDropBegin { worker } => {
                *c.in_flight.entry(*worker).or_insert(0) -= 1;
            }
            Ev::Accepted { token, .. } => *c.accepted.entry(*token).or_insert(0) += 1,
            Ev::DroppedNoWorkers { .. } => c.dropped_no_workers += 1,
            Ev::ShutdownDrained { .. } => c.drained += 1,
            Ev::User { kind, a: _, b, c: _ } => match *kind {
                "connect_ret" if *b == 1 => {}
                "call" => c.calls += 1,
                "identified" => c.identified += 1,
                "end" => c.ends += 1,
                _ => {}
            },
            _ => {}
        }
    }
    // connects per listener need the connect_call listener: pair by cid
    let mut call_listener: HashMap<u64, usize> = HashMap::new();
    for r in log {
        if let Ev::User { kind, a, b, .. } = &r.ev {
            match *kind {
                "connect_call" => {
                    call_listener.insert(*a, *b as usize);
                }
                "connect_ret" if *b == 1 => {
                    if let Some(l) = call_listener.get(a) {
                        *c.connects_ok.entry(*l).or_insert(0) += 1;
                    }
                }
                _ => {}
            }
        }
    }
    (c, first)
}

/// (seq, token, worker) of every dispatch that was not a failed send.
pub fn dispatch_sequence(log: &[Rec]) -> Vec<(u64, usize, usize)> {
    let mut v: Vec<(u64, usize, usize, i32)> = Vec::new();
    for r in log {
        match &r.ev {
            Ev::Dispatch { token, worker, fd } => v.push((r.seq, *token, *worker, *fd)),
            Ev::DispatchFailed { worker, fd } => {
                if let Some(p) = v.iter().rposition(|x| x.2 == *worker && x.3 == *fd) {
                    v.remove(p);
                }
            }
            _ => {}
        }
    }
    v.into_iter().map(|x| (x.0, x.1, x.2)).collect()
}

/// Accept queue length of a listening TCP socket (rx_queue column of /proc/net/tcp).
pub fn tcp_accept_queue(port: u16) -> Option<u64> {
    let txt = std::fs::read_to_string("/proc/net/tcp").ok()?;
    for line in txt.lines().skip(1) {
        let f: Vec<&str> = line.split_whitespace().collect();
        if f.len() < 5 || f[3] != "0A" {
            continue;
        }
        let local = f[1];
        if let Some((_, p)) = local.split_once(':') {
            if u16::from_str_radix(p, 16).ok()? == port {
                let (_tx, rx) = f[4].split_once(':')?;
                return u64::from_str_radix(rx, 16).ok();
            }
        }
    }
    None
}
