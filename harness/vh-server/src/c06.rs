//! C06 — shutdown: graceful waits for connections, forced does not, stop always completes.

use std::{
    io::{BufRead, BufReader},
    process::{Command, Stdio},
    sync::{
        atomic::{AtomicBool, Ordering},
        Arc, Mutex,
    },
    thread,
    time::{Duration, Instant},
};

use actix_server::verif::{self, Ev};
use vh_core::{json, Rng, Value};

use crate::{
    engine::{self, Ack, Addr, Client, LKind, RtKind, ServerCfg},
    monitor::{self, fail, Fail},
};

#[derive(Clone, Copy, Debug, PartialEq, Eq)]
pub enum Variant {
    Plain,
    StopTwice,
    DropFutureUnpolled,
    WhilePaused,
    RacingBurst,
    OtherThread,
}

#[derive(Clone, Debug)]
pub struct Scn {
    pub seed: u64,
    pub workers: usize,
    /// held connections per worker
    pub held: usize,
    pub graceful: bool,
    /// per held connection: Some(ms after stop at which the client closes) or None = never (until the stop resolved)
    pub finish_ms: Vec<Option<u64>>,
    pub timeout_s: u64,
    pub variant: Variant,
    pub rt: RtKind,
    pub uds: bool,
    pub failpoints: bool,
    /// connect one more client right before the stop while the accept thread's bookkeeping of dispatches is delayed
    pub late_client: bool,
    /// a handler blocks its worker thread for 2.5 s starting 1.2 s after a graceful stop (shutdown_timeout 4 s)
    pub stall: bool,
    /// the stop arrives (and the accept thread exits, closing the connection channel) while a worker is in the middle
    /// of one poll of its loop, between taking a connection and handing it to the service
    pub mid_poll: bool,
    /// the server is built with `system_exit()` although it runs in a plain Tokio runtime without an Actix System
    pub system_exit: bool,
    /// signal scenario (child process): 0 none, else the signal number
    pub signal: i32,
}

pub const SIGINT: i32 = 2;
pub const SIGQUIT: i32 = 3;
pub const SIGTERM: i32 = 15;

impl Scn {
    pub fn from_seed(seed: u64) -> Scn {
        let mut r = Rng::new(seed);
        let workers = 1 + r.usize(2);
        let held = r.usize(4);
        let n = workers * held;
        let all_finish = r.chance(2, 3);
        let finish_ms = (0..n)
            .map(|_| if all_finish || r.chance(1, 2) { Some(100 + r.below(700)) } else { None })
            .collect();
        let mut signal = if r.chance(1, 8) { *r.pick(&[SIGINT, SIGQUIT, SIGTERM]) } else { 0 };
        if let Ok(v) = std::env::var("VH_FORCE_SIGNAL") {
            signal = v.parse().unwrap_or(signal);
        }
        if signal == 0 && r.chance(1, 12) {
            // worker stalled across a shutdown tick
            return Scn {
                seed,
                workers: 1,
                held: 1,
                graceful: true,
                finish_ms: vec![None],
                timeout_s: 4,
                variant: Variant::Plain,
                rt: if r.chance(1, 3) { RtKind::Tokio } else { RtKind::Actix },
                uds: false,
                failpoints: false,
                late_client: false,
                stall: true,
                mid_poll: false,
                system_exit: false,
                signal: 0,
            };
        }
        if signal == 0 && r.chance(1, 14) {
            // "wait for ever": the largest shutdown timeout that can be configured; every connection finishes on its own
            let held = 1 + r.usize(2);
            return Scn {
                seed,
                workers,
                held,
                graceful: true,
                // the first one outlives the worker's first one-second shutdown tick (sometimes the second too): the
                // "has the timeout elapsed?" arithmetic runs with the maximal timeout while a connection is open
                finish_ms: (0..workers * held).map(|k| Some(if k == 0 { 1150 + r.below(1100) } else { 150 + r.below(2200) })).collect(),
                timeout_s: u64::MAX,
                variant: Variant::Plain,
                rt: if r.chance(1, 3) { RtKind::Tokio } else { RtKind::Actix },
                uds: r.chance(1, 4),
                failpoints: false,
                late_client: false,
                stall: false,
                mid_poll: false,
                system_exit: false,
                signal: 0,
            };
        }
        if signal == 0 && r.chance(1, 10) {
            let held = 1 + r.usize(2);
            return Scn {
                seed,
                workers,
                held,
                graceful: true,
                finish_ms: (0..workers * held).map(|_| if r.chance(1, 3) { Some(300 + r.below(500)) } else { None }).collect(),
                timeout_s: 1 + r.below(2),
                variant: Variant::Plain,
                rt: if r.chance(1, 3) { RtKind::Tokio } else { RtKind::Actix },
                uds: r.chance(1, 4),
                failpoints: false,
                late_client: false,
                stall: false,
                mid_poll: true,
                system_exit: false,
                signal: 0,
            };
        }
        let rt = if r.chance(1, 3) { RtKind::Tokio } else { RtKind::Actix };
        let system_exit_here = rt == RtKind::Tokio && signal == 0 && r.chance(1, 2);
        Scn {
            seed,
            workers,
            held,
            graceful: r.chance(1, 2),
            finish_ms,
            timeout_s: 1 + r.below(2),
            variant: *r.pick(&[Variant::Plain, Variant::Plain, Variant::StopTwice, Variant::DropFutureUnpolled, Variant::WhilePaused, Variant::RacingBurst, Variant::OtherThread]),
            rt,
            uds: r.chance(1, 4),
            failpoints: r.chance(1, 2),
            late_client: r.chance(1, 3),
            stall: false,
            mid_poll: false,
            system_exit: system_exit_here,
            signal,
        }
    }
    pub fn shape(&self) -> String {
        if self.signal != 0 {
            return format!("signal{} held{} finish{:?}", self.signal, self.held.min(1), self.finish_ms.first());
        }
        format!(
            "w{} held{} g{} finish{:?} to{}s {:?} {:?} uds{} f{} late{}",
            self.workers, self.held, self.graceful as u8, self.finish_ms, self.timeout_s, self.variant, self.rt, self.uds as u8, self.failpoints as u8, self.late_client as u8 + 2 * (self.stall as u8) + 4 * (self.mid_poll as u8) + 8 * (self.system_exit as u8)
        )
    }
    pub fn to_json(&self) -> Value {
        json!({"case_seed": self.seed, "shape": self.shape()})
    }
}

#[derive(Default, Clone)]
pub struct Seen {
    pub graceful_stops: u64,
    pub forced_stops: u64,
    pub graceful_waited_for_connections: u64,
    pub graceful_hit_timeout: u64,
    pub forced_with_held_connections: u64,
    pub idle_stops: u64,
    pub stop_twice: u64,
    pub dropped_futures: u64,
    pub stops_while_paused: u64,
    pub racing_bursts: u64,
    pub server_future_resolved: u64,
    pub no_dispatch_after_checks: u64,
    pub signal_runs_term: u64,
    pub signal_runs_forced: u64,
    pub max_graceful_ms: u64,
    pub late_clients: u64,
    pub stall_scenarios: u64,
    pub mid_poll_scenarios: u64,
    pub signal_before_handlers: u64,
    pub system_exit_without_system: u64,
    pub max_timeout_scenarios: u64,
}

pub enum Outcome {
    Held,
    Violated(Vec<Fail>),
    Inconclusive(String),
}

pub fn run_scenario(scn: &Scn, seen: &mut Seen) -> Outcome {
    if scn.signal != 0 {
        return run_signal(scn, seen);
    }
    let baseline_threads = engine::thread_count();
    verif::clear_injected_accept_errors();
    verif::set_abort_spin(false);
    if scn.failpoints {
        use actix_server::verif::Failpoint;
        verif::set_failpoints(
            &[
                ("server:stop-between-accept-and-workers", Failpoint { per_mille: 700, min_us: 100, max_us: 3000 }),
                ("accept:handle-waker", Failpoint { per_mille: 300, min_us: 20, max_us: 800 }),
                ("worker:recv-call", Failpoint { per_mille: 300, min_us: 20, max_us: 800 }),
                ("accept:send-inc", Failpoint { per_mille: 300, min_us: 20, max_us: 800 }),
            ],
            scn.seed,
        );
    } else {
        verif::set_failpoints(&[], 0);
    }
    verif::start_recording();
    if scn.system_exit {
        engine::SYSTEM_EXIT_NEXT.store(true, Ordering::SeqCst);
        seen.system_exit_without_system += 1;
    }
    if scn.timeout_s == u64::MAX {
        seen.max_timeout_scenarios += 1;
    }
    let cfg = ServerCfg {
        workers: scn.workers,
        limit: 4,
        listeners: vec![if scn.uds { LKind::Uds } else { LKind::Tcp }],
        rt: scn.rt,
        shutdown_timeout: scn.timeout_s,
        backlog: 128,
    };
    let mut run = match engine::start(&cfg, |_| {}) {
        Ok(r) => r,
        Err(e) => return Outcome::Inconclusive(e),
    };
    let mut fails: Vec<Fail> = Vec::new();

    // ---- held connections
    let mut clients: Vec<Client> = Vec::new();
    for _ in 0..scn.workers * scn.held {
        match Client::connect(&run.addrs[0], 0, b'H') {
            Ok(mut c) => {
                let t0 = Instant::now();
                while c.poll_ack(Duration::from_millis(20)) == Ack::NotYet && t0.elapsed() < Duration::from_secs(5) {}
                if !c.served {
                    let _ = run.stop(false, Duration::from_secs(10));
                    let _ = run.join(Duration::from_secs(10));
                    verif::stop_recording();
                    engine::wait_threads_gone(baseline_threads, Duration::from_secs(10));
                    return Outcome::Inconclusive("held client not served".into());
                }
                clients.push(c);
            }
            Err(e) => return Outcome::Inconclusive(format!("connect: {e}")),
        }
    }
    let _ = run.barrier(false);
    if scn.variant == Variant::WhilePaused {
        let _ = engine::block_on_timeout(run.handle.pause(), engine::WATCHDOG);
        let _ = run.accept_barrier(true);
        seen.stops_while_paused += 1;
    }

    // ---- optionally one more connection whose dispatch the accept thread has not yet recorded when the stop arrives
    let mut late: Option<Client> = None;
    if scn.late_client {
        use actix_server::verif::Failpoint;
        verif::set_failpoints(&[("accept:send-inc", Failpoint { per_mille: 1000, min_us: 4000, max_us: 9000 })], scn.seed);
        if let Ok(mut c) = Client::connect(&run.addrs[0], 0, b'H') {
            let t0 = Instant::now();
            while c.poll_ack(Duration::from_millis(5)) == Ack::NotYet && t0.elapsed() < Duration::from_secs(5) {}
            if c.served {
                seen.late_clients += 1;
            }
            late = Some(c);
        }
    }

    if scn.mid_poll {
        use actix_server::verif::Failpoint;
        // the worker that takes the next connection sits 60..80 ms between recv and call; the stop is issued while it does
        verif::set_failpoints(&[("worker:recv-call", Failpoint { per_mille: 1000, min_us: 60_000, max_us: 80_000 })], scn.seed);
        let before = verif::with_log(|l| l.iter().filter(|r| matches!(r.ev, Ev::Dispatch { .. })).count());
        if let Ok(c) = Client::connect(&run.addrs[0], 0, b'H') {
            let _ = engine::wait_log(|l| l.iter().filter(|r| matches!(r.ev, Ev::Dispatch { .. })).count() > before, Duration::from_secs(5));
            thread::sleep(Duration::from_millis(10));
            seen.mid_poll_scenarios += 1;
            late = Some(c);
        }
    }

    // ---- releaser: closes clients at their scripted times after the stop was issued
    let stop_issued: Arc<Mutex<Option<Instant>>> = Arc::new(Mutex::new(None));
    let resolved_flag = Arc::new(AtomicBool::new(false));
    let never: Arc<Mutex<Vec<Client>>> = Arc::new(Mutex::new(Vec::new()));
    let mut timed: Vec<(u64, Client)> = Vec::new();
    for (c, f) in clients.into_iter().zip(scn.finish_ms.iter()) {
        match f {
            Some(ms) => timed.push((*ms, c)),
            None => never.lock().unwrap().push(c),
        }
    }
    timed.sort_by_key(|x| x.0);
    let n_never = never.lock().unwrap().len();
    let releaser = {
        let stop_issued = stop_issued.clone();
        let resolved_flag = resolved_flag.clone();
        thread::spawn(move || {
            let t0 = loop {
                if let Some(t) = *stop_issued.lock().unwrap() {
                    break t;
                }
                thread::sleep(Duration::from_micros(200));
            };
            for (ms, c) in timed {
                let due = t0 + Duration::from_millis(ms);
                while Instant::now() < due && !resolved_flag.load(Ordering::SeqCst) {
                    thread::sleep(Duration::from_millis(1));
                }
                c.close();
            }
        })
    };

    // ---- stop
    let burst = if scn.variant == Variant::RacingBurst {
        seen.racing_bursts += 1;
        let addr = run.addrs[0].clone();
        Some(thread::spawn(move || {
            let mut v = Vec::new();
            for _ in 0..6 {
                if let Ok(c) = Client::connect(&addr, 0, b'F') {
                    v.push(c);
                }
            }
            v
        }))
    } else {
        None
    };
    let watchdog = Duration::from_secs(if scn.timeout_s > 100 { 10 } else { scn.timeout_s + 6 });
    let t_stop = Instant::now();
    *stop_issued.lock().unwrap() = Some(t_stop);
    if scn.stall {
        seen.stall_scenarios += 1;
        let never = never.clone();
        thread::spawn(move || {
            thread::sleep(Duration::from_millis(1200));
            if let Some(c) = never.lock().unwrap().first_mut() {
                c.send(b"s");
            }
        });
    }
    engine::uev("cmd_stop", scn.graceful as u64, 0, 0);
    let handle = run.handle.clone();
    let graceful = scn.graceful;
    // resolved: Some(elapsed) when the stop future (or, for the dropped-future variant, the Server future) resolved
    let mut resolved: Option<Duration> = None;
    let forced_release_after = Duration::from_secs(5);
    let mut released_for_forced = false;
    match scn.variant {
        Variant::DropFutureUnpolled => {
            seen.dropped_futures += 1;
            drop(handle.stop(graceful));
            let t0 = Instant::now();
            while t0.elapsed() < watchdog {
                if run.wait_server_done(Duration::from_millis(20)) {
                    resolved = Some(t_stop.elapsed());
                    break;
                }
                if !graceful && !released_for_forced && t0.elapsed() > forced_release_after {
                    released_for_forced = true;
                    never.lock().unwrap().drain(..).for_each(|c| c.close());
                }
            }
            engine::uev("stop_resolved", graceful as u64, resolved.is_some() as u64, 1);
        }
        _ => {
            let twice = scn.variant == Variant::StopTwice;
            if twice {
                seen.stop_twice += 1;
            }
            // the command is sent when stop() is called; `OtherThread` calls it on the awaiting thread
            let pre = if scn.variant == Variant::OtherThread {
                None
            } else {
                let f1 = handle.stop(graceful);
                let f2 = if twice { Some(handle.stop(graceful)) } else { None };
                Some((f1, f2))
            };
            let (tx, rx) = std::sync::mpsc::channel();
            let waiter = move || {
                let (fut1, fut2) = match pre {
                    Some(p) => p,
                    None => (handle.stop(graceful), None),
                };
                let r1 = engine::block_on_timeout(fut1, watchdog + Duration::from_secs(8)).is_some();
                let el = t_stop.elapsed();
                engine::uev("stop_resolved", graceful as u64, r1 as u64, 0);
                let r2 = fut2.map(|f| engine::block_on_timeout(f, Duration::from_secs(8)).is_some());
                let _ = tx.send((r1, el, r2));
            };
            // awaited on another thread in every variant so that the forced-release logic can run here
            thread::spawn(waiter);
            let t0 = Instant::now();
            loop {
                match rx.recv_timeout(Duration::from_millis(20)) {
                    Ok((r1, el, r2)) => {
                        if r1 {
                            resolved = Some(el);
                        }
                        if let Some(false) = r2 {
                            fails.push(fail("C06:second-stop-never-resolves", "the second of two stop() futures did not resolve within 8 s after the first".to_string()));
                        }
                        break;
                    }
                    Err(_) => {}
                }
                if t0.elapsed() > watchdog + Duration::from_secs(9) {
                    break;
                }
                if !graceful && !released_for_forced && t0.elapsed() > forced_release_after {
                    released_for_forced = true;
                    never.lock().unwrap().drain(..).for_each(|c| c.close());
                }
            }
        }
    }
    verif::set_failpoints(&[], 0);
    resolved_flag.store(true, Ordering::SeqCst);
    let _ = releaser.join();
    let stop_resolved_pos = verif::with_log(|l| l.iter().position(|r| matches!(&r.ev, Ev::User { kind: "stop_resolved", .. })));

    // ---- oracles on timing (lower bounds and causality only)
    match resolved {
        None => match vh_core::proc::quiescent(Duration::from_millis(1500)) {
            Some(true) => fails.push(fail(
                "C06:stop-never-resolves",
                format!("stop({}) did not resolve within {} s and the process is quiescent; last events {:?}", scn.graceful, watchdog.as_secs(), monitor::tail(&verif::log_since(0), 12)),
            )),
            _ => {
                never.lock().unwrap().drain(..).for_each(|c| c.close());
                let _ = run.join(Duration::from_secs(10));
                verif::stop_recording();
                engine::wait_threads_gone(baseline_threads, Duration::from_secs(10));
                return Outcome::Inconclusive("stop watchdog, process busy".into());
            }
        },
        Some(el) => {
            let log = verif::log_since(0);
            let pos = stop_resolved_pos.unwrap_or(log.len());
            // connections in progress when the stop was issued, and whether they had ended when it resolved
            let stop_pos = log.iter().position(|r| matches!(&r.ev, Ev::User { kind: "cmd_stop", .. })).unwrap_or(0);
            let mut running: Vec<u64> = Vec::new();
            for r in &log[..stop_pos] {
                if let Ev::User { kind, a, .. } = &r.ev {
                    match *kind {
                        "identified" => running.push(*a),
                        "end" => running.retain(|c| c != a),
                        _ => {}
                    }
                }
            }
            let mut still: Vec<u64> = running.clone();
            for r in &log[stop_pos..pos.min(log.len())] {
                if let Ev::User { kind: "end", a, .. } = &r.ev {
                    still.retain(|c| c != a);
                }
            }
            if scn.graceful {
                // a graceful stop lets connections in progress finish: none of them may be cancelled (service future
                // dropped while its client is still connected) before shutdown_timeout has elapsed
                let t_stop_us = log[stop_pos].t_us;
                for r in &log[stop_pos..] {
                    if let Ev::User { kind: "end", a, c: 0, .. } = &r.ev {
                        if !running.contains(a) {
                            continue;
                        }
                        let client_closed_before = log[..r.seq as usize].iter().any(|x| matches!(&x.ev, Ev::User { kind: "client_close", a: c2, .. } if c2 == a));
                        let after_ms = (r.t_us - t_stop_us) / 1000;
                        if !client_closed_before && after_ms + 50 < scn.timeout_s.saturating_mul(1000) {
                            let stop_seen: Vec<String> = log
                                .iter()
                                .filter(|r| matches!(r.ev, Ev::WorkerStopSeen { .. } | Ev::WorkerDrop { .. } | Ev::AcceptExit) || matches!(&r.ev, Ev::User { kind: "cmd_stop" | "stop_resolved", .. }))
                                .map(monitor::render)
                                .collect();
                            fails.push(fail(
                                "C06:graceful-stop-cancelled-connection",
                                format!(
                                    "stop(true): connection {a} was in progress, its client still connected, and its service future was dropped {after_ms} ms after the stop (shutdown_timeout {} s); shutdown events: {stop_seen:?}",
                                    scn.timeout_s
                                ),
                            ));
                            break;
                        }
                    }
                }
                seen.graceful_stops += 1;
                seen.max_graceful_ms = seen.max_graceful_ms.max(el.as_millis() as u64);
                if running.is_empty() {
                    seen.idle_stops += 1;
                }
                let timeout = Duration::from_secs(scn.timeout_s);
                if !still.is_empty() && el + Duration::from_millis(30) < timeout {
                    let stop_seen: Vec<String> = log.iter().filter(|r| matches!(r.ev, Ev::WorkerStopSeen { .. } | Ev::WorkerDrop { .. } | Ev::AcceptExit) || matches!(&r.ev, Ev::User { kind: "cmd_stop" | "stop_resolved", .. })).map(monitor::render).collect();
                    fails.push(fail(
                        "C06:graceful-stop-resolved-with-connection-running",
                        format!(
                            "stop(true) resolved after {} ms although connections {still:?} were still in progress and shutdown_timeout is {} s; shutdown events: {stop_seen:?}",
                            el.as_millis(),
                            scn.timeout_s
                        ),
                    ));
                }
                if still.is_empty() && !running.is_empty() {
                    seen.graceful_waited_for_connections += 1;
                }
                if !still.is_empty() {
                    seen.graceful_hit_timeout += 1;
                }
            } else {
                seen.forced_stops += 1;
                if !running.is_empty() {
                    seen.forced_with_held_connections += 1;
                }
                if released_for_forced && n_never > 0 {
                    fails.push(fail(
                        "C06:forced-stop-waited-for-connections",
                        format!("stop(false) had not resolved after {} s with {n_never} connection(s) held open; it resolved only after they were released ({} ms)", forced_release_after.as_secs(), el.as_millis()),
                    ));
                }
            }
        }
    }
    never.lock().unwrap().drain(..).for_each(|c| c.close());
    if let Some(c) = late.take() {
        c.close();
    }

    // ---- the Server future resolves too
    let server_done = run.wait_server_done(Duration::from_secs(10));
    if !server_done && resolved.is_some() {
        match vh_core::proc::quiescent(Duration::from_millis(1500)) {
            Some(true) => fails.push(fail("C06:server-future-never-resolves", "the stop future resolved but the Server future did not; process quiescent".to_string())),
            _ => {
                if fails.is_empty() {
                    verif::stop_recording();
                    return Outcome::Inconclusive("server future watchdog".into());
                }
            }
        }
    } else if server_done {
        seen.server_future_resolved += 1;
    }
    let joined = run.join(Duration::from_secs(10));
    let burst_clients = burst.map(|b| b.join().unwrap_or_default()).unwrap_or_default();
    let log = verif::log_since(0);
    verif::stop_recording();
    verif::set_failpoints(&[], 0);
    let gone = engine::wait_threads_gone(baseline_threads, Duration::from_secs(10));

    // ---- R5: nothing is dispatched after completion; the accept thread has exited before it
    if let Some(pos) = stop_resolved_pos {
        seen.no_dispatch_after_checks += 1;
        if scn.variant != Variant::DropFutureUnpolled {
            if !log[..pos].iter().any(|r| matches!(r.ev, Ev::AcceptExit)) {
                fails.push(fail("C06:completed-before-accept-thread-exit", "stop() resolved before the accept thread had exited".to_string()));
            }
        }
        for r in &log[pos..] {
            match &r.ev {
                Ev::Dispatch { fd, worker, .. } => {
                    fails.push(fail("C06:dispatch-after-completion", format!("fd {fd} dispatched to worker {worker} (event #{}) after stop() had resolved", r.seq)));
                    break;
                }
                Ev::User { kind: "call", .. } if scn.graceful => {
                    fails.push(fail("C06:service-call-after-graceful-completion", format!("a service call started (event #{}) after a graceful stop had resolved", r.seq)));
                    break;
                }
                _ => {}
            }
        }
    }
    // racing burst: every socket ends up closed by the server or served-and-finished
    for mut c in burst_clients {
        let t0 = Instant::now();
        let mut settled = false;
        while t0.elapsed() < Duration::from_secs(3) {
            match c.poll_ack(Duration::from_millis(20)) {
                Ack::ClosedByServer => {
                    settled = true;
                    break;
                }
                Ack::Served => {
                    if c.server_closed(Duration::from_millis(20)) {
                        settled = true;
                        break;
                    }
                }
                Ack::NotYet => {}
            }
        }
        if !settled && joined {
            fails.push(fail("C06:connection-left-open-after-stop", format!("client {} connected while the stop was in progress and its socket is still open after the server is gone", c.cid)));
        }
        c.close();
    }
    if !fails.is_empty() {
        return Outcome::Violated(fails);
    }
    if !joined || !gone {
        return Outcome::Inconclusive("teardown".into());
    }
    Outcome::Held
}

// ------------------------------------------------------------------ signals (child process)

/// Entry point of the child: a server with signal handling enabled; prints its port, then runs to completion.
pub fn child_main(timeout_s: u64) -> ! {
    use std::io::Write;
    verif::start_recording();
    let sys = actix_rt::System::new();
    let code = sys.block_on(async move {
        let lst = std::net::TcpListener::bind("127.0.0.1:0").unwrap();
        let port = lst.local_addr().unwrap().port();
        let ctl = engine::Ctl::new(0, Arc::new(std::sync::atomic::AtomicU64::new(0)));
        let f = engine::hfactory_tcp(ctl);
        let srv = actix_server::Server::build()
            .workers(1)
            .shutdown_timeout(timeout_s)
            .listen("c", lst, move || f.clone())
            .unwrap()
            .run();
        println!("PORT {port}");
        let _ = std::io::stdout().flush();
        match srv.await {
            Ok(()) => 0,
            Err(_) => 3,
        }
    });
    // the child's own hook log, for the parent's witness
    for r in verif::log_since(0).iter().filter(|r| !matches!(r.ev, Ev::LoopIdle(_))) {
        eprintln!("{}", monitor::render(r));
    }
    std::process::exit(code)
}

fn run_signal(scn: &Scn, seen: &mut Seen) -> Outcome {
    // The server starts its accept thread and workers a moment before it installs its signal handlers; a signal
    // that arrives in between gets the default action (the process is killed by it). That window belongs to any
    // program's start-up, not to the stop semantics: the signal is sent 30 ms after the first connection was served, and
    // if the child is nevertheless killed by the signal's default action the scenario is repeated once with 400 ms.
    match run_signal_once(scn, seen, 30) {
        (o, false) => o,
        (_, true) => {
            seen.signal_before_handlers += 1;
            run_signal_once(scn, seen, 400).0
        }
    }
}

/// Returns the outcome and whether the child was killed by SIGTERM's default action (no handler installed yet).
fn run_signal_once(scn: &Scn, seen: &mut Seen, pre_delay_ms: u64) -> (Outcome, bool) {
    let o = run_signal_inner(scn, seen, pre_delay_ms);
    match o {
        (Outcome::Violated(f), true) if pre_delay_ms < 100 => (Outcome::Violated(f), true),
        (o, _) => (o, false),
    }
}

fn run_signal_inner(scn: &Scn, seen: &mut Seen, pre_delay_ms: u64) -> (Outcome, bool) {
    let mut default_action = false;
    let exe = match std::env::current_exe() {
        Ok(e) => e,
        Err(e) => return (Outcome::Inconclusive(e.to_string()), false),
    };
    let timeout_s = 8;
    let mut child = match Command::new(exe).arg("__child_signal").arg("--timeout").arg(timeout_s.to_string()).stdout(Stdio::piped()).stderr(Stdio::piped()).spawn() {
        Ok(c) => c,
        Err(e) => return (Outcome::Inconclusive(e.to_string()), false),
    };
    let mut fails = Vec::new();
    let out = child.stdout.take().unwrap();
    let mut line = String::new();
    let _ = BufReader::new(out).read_line(&mut line);
    let port: u16 = match line.trim().strip_prefix("PORT ").and_then(|p| p.parse().ok()) {
        Some(p) => p,
        None => {
            let _ = child.kill();
            let _ = child.wait();
            return (Outcome::Inconclusive("child did not report a port".into()), false);
        }
    };
    let addr = Addr::Tcp(format!("127.0.0.1:{port}").parse().unwrap());
    let mut client = match Client::connect(&addr, 0, b'H') {
        Ok(c) => c,
        Err(e) => {
            let _ = child.kill();
            let _ = child.wait();
            return (Outcome::Inconclusive(e.to_string()), false);
        }
    };
    let t0 = Instant::now();
    while client.poll_ack(Duration::from_millis(20)) == Ack::NotYet && t0.elapsed() < Duration::from_secs(5) {}
    if !client.served {
        let _ = child.kill();
        let _ = child.wait();
        return (Outcome::Inconclusive("child did not serve the client".into()), false);
    }
    thread::sleep(Duration::from_millis(pre_delay_ms));
    if let Ok(ms) = std::env::var("VH_SIGNAL_DELAY_MS") {
        thread::sleep(Duration::from_millis(ms.parse().unwrap_or(0)));
    }
    // SAFETY: plain kill(2) on our own child
    unsafe {
        libc::kill(child.id() as i32, scn.signal);
    }
    let t_sig = Instant::now();
    let wait_exit = |child: &mut std::process::Child, max: Duration| -> Option<std::process::ExitStatus> {
        let t0 = Instant::now();
        while t0.elapsed() < max {
            if let Ok(Some(st)) = child.try_wait() {
                return Some(st);
            }
            thread::sleep(Duration::from_millis(10));
        }
        None
    };
    if scn.signal == SIGTERM {
        seen.signal_runs_term += 1;
        // graceful: the child must stay alive while the connection is in progress (shutdown_timeout is 8 s)
        if let Some(st) = wait_exit(&mut child, Duration::from_millis(900)) {
            default_action = std::os::unix::process::ExitStatusExt::signal(&st) == Some(SIGTERM);
            fails.push(fail(
                "C06:sigterm-did-not-wait-for-connection",
                format!("SIGTERM: the server process exited ({st:?}) {} ms after the signal while a connection was still in progress (shutdown_timeout 8 s)", t_sig.elapsed().as_millis()),
            ));
        } else {
            client.close();
            match wait_exit(&mut child, Duration::from_secs(10)) {
                Some(_) => {}
                None => fails.push(fail("C06:sigterm-never-completes", "SIGTERM: the server process is still running 10 s after its last connection finished".to_string())),
            }
        }
    } else {
        seen.signal_runs_forced += 1;
        // forced: the child exits although the connection is still held
        match wait_exit(&mut child, Duration::from_millis(5000)) {
            Some(_) => {}
            None => {
                client.close();
                let later = wait_exit(&mut child, Duration::from_secs(8));
                fails.push(fail(
                    if scn.signal == SIGINT { "C06:sigint-waited-for-connection" } else { "C06:sigquit-waited-for-connection" },
                    format!(
                        "signal {}: the server process was still running 5 s after the signal with a connection held (shutdown_timeout 8 s); after the connection was released it {}",
                        scn.signal,
                        if later.is_some() { "exited" } else { "kept running" }
                    ),
                ));
            }
        }
    }
    let _ = child.kill();
    let _ = child.wait();
    if fails.is_empty() {
        (Outcome::Held, false)
    } else {
        let mut err = String::new();
        if let Some(mut e) = child.stderr.take() {
            use std::io::Read;
            let _ = e.read_to_string(&mut err);
        }
        let tail: Vec<&str> = err.lines().rev().take(30).collect::<Vec<_>>().into_iter().rev().collect();
        for f in fails.iter_mut() {
            f.desc.push_str(&format!("; child's hook log: {tail:?}"));
        }
        (Outcome::Violated(fails), default_action)
    }
}
