//! Back-pressure scenarios: one run serves C02 (per-worker bound), C03 (spare capacity is used /
//! no lost wake-up) and C04 (round-robin over available workers). Violation signatures carry the
//! property prefix; the caller keeps those of the property it was asked for.

use std::{
    collections::BTreeMap,
    thread,
    time::{Duration, Instant},
};

use actix_server::verif::{self, Ev, Failpoint, Snapshot};
use vh_core::{json, Rng, Value};

use crate::{
    engine::{self, Ack, Addr, Client, LKind, RtKind, Running, ServerCfg, Waited},
    monitor::{self, fail, Fail},
};

#[derive(Clone, Debug)]
pub struct Scn {
    pub seed: u64,
    pub workers: usize,
    pub limit: usize,
    pub listeners: Vec<LKind>,
    pub rt: RtKind,
    /// extra clients queued while everything is saturated
    pub queued: usize,
    /// release several connections concurrently with failpoints armed before the stepwise part
    pub stress: bool,
    pub failpoints: bool,
    /// pause and resume while every worker is saturated and clients are queued
    pub pause_resume: bool,
    pub release_while_paused: bool,
    /// before anything else one worker (the one in the first slot of the accept thread's handle list) dies and is
    /// replaced: the handle list is then no longer in index order ([W-1, 1, .., 0']), which is the state a long-running
    /// server is in after any fault. Not used for C02 (which is only stated for fault-free histories).
    pub prior_fault: bool,
}

impl Scn {
    pub fn from_seed(seed: u64) -> Scn {
        let mut r = Rng::new(seed);
        let workers = 1 + r.usize(3);
        let limit = 1 + r.usize(4);
        let listeners = match r.usize(4) {
            0 => vec![LKind::Uds],
            1 => vec![LKind::Tcp, LKind::Uds],
            _ => vec![LKind::Tcp],
        };
        Scn {
            seed,
            workers,
            limit,
            listeners,
            rt: if r.chance(1, 3) { RtKind::Tokio } else { RtKind::Actix },
            queued: 1 + r.usize(3),
            stress: r.chance(1, 3),
            failpoints: r.chance(1, 2),
            pause_resume: r.chance(1, 2),
            release_while_paused: r.chance(1, 2),
            prior_fault: workers >= 2 && r.chance(1, 4),
        }
    }
    pub fn to_json(&self) -> Value {
        json!({"case_seed": self.seed, "workers": self.workers, "limit": self.limit, "listeners": format!("{:?}", self.listeners),
               "rt": format!("{:?}", self.rt), "queued": self.queued, "stress": self.stress, "failpoints": self.failpoints, "pause_resume": self.pause_resume, "release_while_paused": self.release_while_paused, "prior_fault": self.prior_fault})
    }
    pub fn shape(&self) -> String {
        format!("w{} l{} {:?} {:?} q{} s{} f{} pr{}", self.workers, self.limit, self.listeners, self.rt, self.queued, self.stress as u8, self.failpoints as u8, self.pause_resume as u8 + 2 * (self.release_while_paused as u8) + 4 * (self.prior_fault as u8))
    }
}

#[derive(Default, Clone)]
pub struct Seen {
    pub quiescent_points: u64,
    pub quiescent_with_pending_and_no_spare: u64,
    pub saturations: u64,
    pub releases_after_saturation: u64,
    pub redispatch_after_release: u64,
    pub dispatches: u64,
    pub rr_windows_checked: u64,
    pub rr_partial_sets_checked: u64,
    pub bound_checks: u64,
    pub dec_before_inc_races: u64,
    pub failpoint_hits: u64,
    pub max_in_flight_seen: u64,
    pub boundary_concurrency_checks: u64,
    pub stress_phases: u64,
    pub pause_resume_while_saturated: u64,
    pub releases_while_paused: u64,
    pub prior_fault_preludes: u64,
    pub avail_bit_checks: u64,
    pub wide_scenarios: u64,
    pub wide_releases_checked: u64,
    pub special_scenarios: u64,
    pub service_restarts: u64,
    pub restarts_with_queued_connections: u64,
    pub backoffs_with_wakeups: u64,
    pub refills_after_replacement: u64,
}

pub enum Outcome {
    Held,
    Violated(Vec<Fail>),
    Inconclusive(String),
}

struct World {
    run: Running,
    clients: Vec<Client>,
    limit: usize,
    workers: usize,
}

fn wait_queue(addr: &Addr, expect_at_least: u64) {
    // TCP: wait until the kernel shows the connections in the listener's accept queue (UDS connect is synchronous)
    if let Addr::Tcp(a) = addr {
        let t0 = Instant::now();
        while t0.elapsed() < Duration::from_millis(500) {
            match monitor::tcp_accept_queue(a.port()) {
                Some(n) if n >= expect_at_least => return,
                None => return,
                _ => thread::sleep(Duration::from_micros(200)),
            }
        }
    }
}

/// Evaluate the quiescent-point rules on the idle snapshot that followed a barrier.
fn quiescent_check(w: &World, snap: &Snapshot, what: &str, seen: &mut Seen, fails: &mut Vec<Fail>) {
    let log = verif::log_since(0);
    let (c, bound) = monitor::shadow(&log, w.limit, false);
    seen.quiescent_points += 1;
    seen.bound_checks += c.dispatch_total;
    seen.max_in_flight_seen = seen.max_in_flight_seen.max(c.max_in_flight.max(0) as u64);
    if let Some(f) = bound {
        fails.push(f);
    }
    let mut pending = 0i64;
    for (l, n) in &c.connects_ok {
        pending += *n as i64 - *c.accepted.get(l).unwrap_or(&0) as i64;
    }
    let mut spare = 0i64;
    for idx in &snap.handles {
        let inflight = *c.in_flight.get(idx).unwrap_or(&0);
        spare += (w.limit as i64 - inflight).max(0);
    }
    if pending > 0 && spare == 0 {
        seen.quiescent_with_pending_and_no_spare += 1;
    }
    if pending > 0 && spare > 0 && !snap.paused && snap.listeners.iter().all(|(_, backoff)| !*backoff) {
        fails.push(fail(
            format!("C03:spare-capacity-unused:limit{}", if w.limit == 1 { "=1" } else { ">1" }),
            format!(
                "{what}: quiescent point (all wake-ups processed) with {pending} connection(s) waiting in the listener backlog while live workers have {spare} free slot(s); \
                 limit {} workers {}; in-flight per worker {:?}; snapshot avail bits {:?} raw counters {:?}; last events: {:?}",
                w.limit,
                w.workers,
                c.in_flight,
                snap.avail.iter().take(w.workers).collect::<Vec<_>>(),
                snap.counters,
                monitor::tail(&log, 14)
            ),
        ));
    }
    // C04: at quiescence (every release notification processed) the accept thread's availability bit of each live worker
    // agrees with that worker's own counter as the accept thread reads it in the same snapshot: below the limit => in the
    // rotation, at the limit => skipped. A stuck-clear bit makes the rotation skip a worker that could take work; a
    // stuck-set bit hands a saturated worker the next connection.
    for (idx, total) in &snap.counters {
        if *total > (1 << 40) {
            continue;
        }
        let bit = snap.avail.get(*idx).copied().unwrap_or(false);
        seen.avail_bit_checks += 1;
        if (*total as usize) < w.limit && !bit {
            fails.push(fail(
                "C04:free-worker-marked-unavailable",
                format!(
                    "{what}: quiescent point: worker {idx} has {total} connection(s) in progress (limit {}) but its availability bit is clear, so the rotation skips it; handles {:?} avail bits {:?} counters {:?}; last events: {:?}",
                    w.limit,
                    snap.handles,
                    snap.avail.iter().take(w.workers.max(idx + 1)).collect::<Vec<_>>(),
                    snap.counters,
                    monitor::tail(&log, 10)
                ),
            ));
        }
        if (*total as usize) >= w.limit && bit {
            fails.push(fail(
                "C04:saturated-worker-marked-available",
                format!(
                    "{what}: quiescent point: worker {idx} has {total} connection(s) in progress (limit {}) but its availability bit is set: it receives the next connection; handles {:?} avail bits {:?} counters {:?}; last events: {:?}",
                    w.limit,
                    snap.handles,
                    snap.avail.iter().take(w.workers.max(idx + 1)).collect::<Vec<_>>(),
                    snap.counters,
                    monitor::tail(&log, 10)
                ),
            ));
        }
    }
}

fn barrier(w: &World) -> Result<Snapshot, Outcome> {
    match w.run.barrier(false) {
        Ok(s) => Ok(s),
        Err(Waited::Stuck) => Err(Outcome::Violated(vec![fail(
            "C03:barrier-never-reached",
            format!("the server stopped making progress (process quiescent) before reaching the barrier; last events {:?}", monitor::tail(&verif::log_since(0), 12)),
        )])),
        Err(_) => Err(Outcome::Inconclusive("barrier watchdog".into())),
    }
}

fn connect(w: &mut World, listener: usize, expect_served: bool) -> Result<usize, Outcome> {
    let addr = w.run.addrs[listener].clone();
    match Client::connect(&addr, listener, b'H') {
        Ok(mut c) => {
            if expect_served {
                let t0 = Instant::now();
                loop {
                    match c.poll_ack(Duration::from_millis(20)) {
                        Ack::Served => break,
                        Ack::ClosedByServer => break,
                        Ack::NotYet => {
                            if t0.elapsed() > Duration::from_secs(10) {
                                break;
                            }
                        }
                    }
                }
            }
            w.clients.push(c);
            Ok(w.clients.len() - 1)
        }
        Err(e) => Err(Outcome::Inconclusive(format!("connect failed: {e}"))),
    }
}

/// Close a client and, if the server had started serving it, wait until its service future has ended
/// (the release is then in progress and the barrier's guard-drop stage covers it).
fn close_and_wait(mut c: Client) -> Result<(), Outcome> {
    if c.cid == 0 {
        return Ok(());
    }
    let cid = c.cid;
    let served = c.served || c.poll_ack(Duration::from_millis(1)) == Ack::Served;
    c.close();
    if served {
        match engine::wait_log(|l| l.iter().any(|r| matches!(&r.ev, Ev::User { kind: "end", a, .. } if *a == cid)), engine::WATCHDOG) {
            Waited::Ok => Ok(()),
            Waited::Stuck => Err(Outcome::Violated(vec![fail(
                "C01:closed-connection-never-finishes",
                format!("client {cid} closed its socket but the service future serving it never ended; process quiescent"),
            )])),
            Waited::Unknown => Err(Outcome::Inconclusive("end-of-connection watchdog".into())),
        }
    } else {
        Ok(())
    }
}

fn worker_of_cid(cid: u64) -> Option<usize> {
    // identified(cid, instance) on thread T; worker idx = idx in GuardDrop/Dispatch on ... use Dispatch fd match via call(fd)
    let log = verif::log_since(0);
    // call(instance, listener, fd) precedes identified(cid, instance) on the same thread; match the closest earlier Dispatch with that fd
    let mut thread = 0;
    let mut pos = 0;
    for (i, r) in log.iter().enumerate() {
        if let Ev::User { kind: "identified", a, .. } = &r.ev {
            if *a == cid {
                thread = r.thread;
                pos = i;
            }
        }
    }
    if thread == 0 {
        return None;
    }
    // the nearest preceding `call` on that thread belongs to this connection only if calls do not interleave;
    // instead use the worker idx of any GuardDrop / WorkerStop event on that thread, or map thread -> idx through dispatch/call fd pairs
    let mut fd_to_worker: BTreeMap<i32, usize> = BTreeMap::new();
    let mut thread_worker: Option<usize> = None;
    for r in &log[..=pos] {
        match &r.ev {
            Ev::Dispatch { fd, worker, .. } => {
                fd_to_worker.insert(*fd, *worker);
            }
            Ev::User { kind: "call", c, .. } if r.thread == thread => {
                if let Some(w) = fd_to_worker.get(&(*c as i32)) {
                    thread_worker = Some(*w);
                }
            }
            _ => {}
        }
    }
    thread_worker
}

pub fn run_scenario(scn: &Scn, seen: &mut Seen) -> Outcome {
    let mut rng = Rng::new(scn.seed ^ 0xb9);
    let baseline_threads = engine::thread_count();
    verif::clear_injected_accept_errors();
    verif::set_abort_spin(false);
    if scn.failpoints {
        verif::set_failpoints(
            &[
                ("accept:send-inc", Failpoint { per_mille: 300, min_us: 50, max_us: 1500 }),
                ("worker:dec-wake", Failpoint { per_mille: 300, min_us: 50, max_us: 1500 }),
                ("worker:recv-call", Failpoint { per_mille: 200, min_us: 20, max_us: 600 }),
                ("accept:accept-dispatch", Failpoint { per_mille: 150, min_us: 20, max_us: 400 }),
                ("accept:handle-waker", Failpoint { per_mille: 150, min_us: 20, max_us: 400 }),
            ],
            scn.seed,
        );
    } else {
        verif::set_failpoints(&[], 0);
    }
    verif::start_recording();
    let cfg = ServerCfg {
        workers: scn.workers,
        limit: scn.limit,
        listeners: scn.listeners.clone(),
        rt: scn.rt,
        shutdown_timeout: 1,
        backlog: 128,
    };
    let run = match engine::start(&cfg, |_| {}) {
        Ok(r) => r,
        Err(e) => return Outcome::Inconclusive(e),
    };
    let mut w = World { run, clients: Vec::new(), limit: scn.limit, workers: scn.workers };
    let mut fails: Vec<Fail> = Vec::new();
    let nl = scn.listeners.len();
    let cap = scn.workers * scn.limit;

    let result = (|| -> Result<(), Outcome> {
        // ---- prelude: a worker dies and is replaced before the scenario proper
        if scn.prior_fault && scn.workers >= 2 {
            w.run.ctls[0].inner.lock().unwrap().panic_next_call = true;
            // the first connection goes to the first slot of the handle list; its call panics and takes the worker down
            let victim = Client::connect(&w.run.addrs[0], 0, b'F').map_err(|e| Outcome::Inconclusive(format!("prelude connect: {e}")))?;
            let adopted = |l: &[verif::Rec]| l.iter().any(|r| matches!(&r.ev, Ev::Interest { kind: "worker", .. }));
            let mut probes: Vec<Client> = Vec::new();
            let t0 = Instant::now();
            // the death is discovered by a later dispatch to that worker: keep clients arriving until the replacement is in
            while !verif::with_log(|l| adopted(l)) && t0.elapsed() < Duration::from_secs(10) {
                if let Ok(mut c) = Client::connect(&w.run.addrs[0], 0, b'F') {
                    let t1 = Instant::now();
                    while c.poll_ack(Duration::from_millis(10)) == Ack::NotYet && t1.elapsed() < Duration::from_millis(200) {}
                    probes.push(c);
                }
                thread::sleep(Duration::from_millis(10));
            }
            if !verif::with_log(|l| adopted(l)) {
                return Err(Outcome::Inconclusive("prelude: no replacement worker adopted within 10 s".into()));
            }
            victim.close();
            for c in probes {
                close_and_wait(c)?;
            }
            // let the dying worker finish unwinding and every release of the probes reach the accept thread, then start
            // the history afresh: the bookkeeping of the barrier (every dispatch reaches a call) does not hold across a fault
            thread::sleep(Duration::from_millis(150));
            let _ = w.run.accept_barrier(false);
            thread::sleep(Duration::from_millis(50));
            match w.run.accept_barrier(false) {
                Ok(snap) => {
                    if snap.handles.len() != scn.workers {
                        return Err(Outcome::Inconclusive(format!("prelude: {} handles after the replacement", snap.handles.len())));
                    }
                }
                Err(_) => return Err(Outcome::Inconclusive("prelude: accept thread did not answer".into())),
            }
            verif::start_recording();
            seen.prior_fault_preludes += 1;
        }

        // ---- phase A: unsaturated round-robin (sequential clients: order known at the boundary too)
        let first = scn.workers.min(cap);
        let mut order: Vec<usize> = Vec::new();
        for i in 0..first {
            let idx = connect(&mut w, i % nl, true)?;
            let cid = w.clients[idx].cid;
            if let Some(wk) = worker_of_cid(cid) {
                order.push(wk);
            }
        }
        let snap = barrier(&w)?;
        quiescent_check(&w, &snap, "after first round", seen, &mut fails);
        {
            let seq = monitor::dispatch_sequence(&verif::log_since(0));
            seen.dispatches = seen.dispatches.max(seq.len() as u64);
            if seq.len() >= scn.workers && scn.limit >= 1 {
                // no worker can be saturated before each got one connection unless limit == 1 (then still distinct)
                let wnd: Vec<usize> = seq.iter().take(scn.workers).map(|x| x.2).collect();
                let mut d = wnd.clone();
                d.sort();
                d.dedup();
                seen.rr_windows_checked += 1;
                if d.len() != scn.workers {
                    fails.push(fail(
                        "C04:first-round-not-distinct",
                        format!("the first {} dispatches went to workers {wnd:?}: not {} distinct workers although none was saturated", scn.workers, scn.workers),
                    ));
                }
                if order.len() == scn.workers {
                    let mut o = order.clone();
                    o.sort();
                    o.dedup();
                    if o.len() != scn.workers {
                        fails.push(fail("C04:first-round-not-distinct", format!("boundary view: first {} sequential clients were served by workers {order:?}", scn.workers)));
                    }
                }
            }
        }

        // ---- phase B: saturate everyone
        while w.clients.len() < cap {
            let l = w.clients.len() % nl;
            connect(&mut w, l, true)?;
        }
        let snap = barrier(&w)?;
        quiescent_check(&w, &snap, "after saturation", seen, &mut fails);
        {
            let (c, _) = monitor::shadow(&verif::log_since(0), scn.limit, false);
            let all_full = (0..scn.workers).all(|i| *c.in_flight.get(&i).unwrap_or(&0) == scn.limit as i64);
            if !all_full {
                // with W*L clients held and the bound respected, every worker must be exactly full
                fails.push(fail(
                    "C04:uneven-distribution-at-saturation",
                    format!("{} held connections on {} workers with limit {}: in-flight per worker {:?} (round-robin would fill all)", cap, scn.workers, scn.limit, c.in_flight),
                ));
            } else {
                seen.saturations += 1;
            }
            // full windows of W consecutive dispatches while no worker was saturated
            let seq = monitor::dispatch_sequence(&verif::log_since(0));
            let mut counts = vec![0usize; scn.workers.max(1)];
            let mut i = 0;
            while i + scn.workers <= seq.len() {
                if counts.iter().any(|c| *c >= scn.limit) {
                    break;
                }
                let wnd: Vec<usize> = seq[i..i + scn.workers].iter().map(|x| x.2).collect();
                let mut d = wnd.clone();
                d.sort();
                d.dedup();
                seen.rr_windows_checked += 1;
                if d.len() != scn.workers {
                    fails.push(fail("C04:window-not-distinct", format!("dispatches {i}..{} went to workers {wnd:?} while no worker was saturated", i + scn.workers)));
                    break;
                }
                if let Some(x) = seq.get(i) {
                    if x.2 < counts.len() {
                        counts[x.2] += 1;
                    }
                }
                i += 1;
            }
        }

        // ---- phase C: queue extra clients; nothing may be dispatched
        let before = monitor::dispatch_sequence(&verif::log_since(0)).len();
        let first_extra = w.clients.len();
        for k in 0..scn.queued {
            let l = k % nl;
            connect(&mut w, l, false)?;
        }
        for (l, a) in w.run.addrs.clone().iter().enumerate() {
            let n = (0..scn.queued).filter(|k| k % nl == l).count() as u64;
            wait_queue(a, n);
        }
        let snap = barrier(&w)?;
        quiescent_check(&w, &snap, "after queueing extra clients", seen, &mut fails);
        let after = monitor::dispatch_sequence(&verif::log_since(0)).len();
        if after != before {
            fails.push(fail(
                "C02:dispatch-while-all-saturated",
                format!("{} connection(s) were dispatched while every worker was at its limit {}", after - before, scn.limit),
            ));
        }

        // ---- optional: pause and resume while everybody is saturated; still nothing may be dispatched
        let mut released_while_paused = 0usize;
        if scn.pause_resume {
            let before = monitor::dispatch_sequence(&verif::log_since(0)).len();
            let _ = engine::block_on_timeout(w.run.handle.pause(), engine::WATCHDOG);
            match w.run.accept_barrier(true) {
                Ok(_) => {}
                Err(Waited::Stuck) => return Err(Outcome::Violated(vec![fail("C05:accept-thread-stuck", "accept thread did not process pause".to_string())])),
                Err(_) => return Err(Outcome::Inconclusive("pause barrier".into())),
            }
            // sometimes a connection finishes while the server is paused: the capacity it frees must be used after resume
            if scn.release_while_paused && !w.clients.is_empty() && first_extra > 0 {
                let v = rng.usize(first_extra);
                let c = std::mem::replace(&mut w.clients[v], dummy_client());
                if c.cid != 0 {
                    close_and_wait(c)?;
                    released_while_paused = 1;
                    seen.releases_while_paused += 1;
                    match w.run.guard_barrier() {
                        Waited::Ok => {}
                        _ => return Err(Outcome::Inconclusive("guard barrier while paused".into())),
                    }
                    let _ = w.run.accept_barrier(true);
                }
            }
            let _ = engine::block_on_timeout(w.run.handle.resume(), engine::WATCHDOG);
            seen.pause_resume_while_saturated += 1;
            let snap = barrier(&w)?;
            quiescent_check(&w, &snap, "after pause+resume while saturated", seen, &mut fails);
            let after = monitor::dispatch_sequence(&verif::log_since(0)).len();
            if after != before + released_while_paused {
                fails.push(fail(
                    "C02:dispatch-while-all-saturated",
                    format!("{} connection(s) were dispatched after a pause+resume although every worker was at its limit {} ({released_while_paused} released meanwhile)", after - before, scn.limit),
                ));
            }
        }

        // ---- optional stress: release several held connections from concurrent threads, then settle
        let mut held: Vec<usize> = (0..first_extra).collect();
        rng.shuffle(&mut held);
        if scn.stress && held.len() >= 2 {
            seen.stress_phases += 1;
            let k = 2 + rng.usize(held.len() - 1);
            let victims: Vec<usize> = held.drain(..k.min(held.len())).collect();
            let mut ths = Vec::new();
            // move the clients out (replace by closed marker) and close them concurrently
            let mut taken: Vec<(usize, Client)> = Vec::new();
            for v in &victims {
                let c = std::mem::replace(&mut w.clients[*v], dummy_client());
                taken.push((*v, c));
            }
            for (_, c) in taken {
                let d = rng.below(400);
                ths.push(thread::spawn(move || {
                    thread::sleep(Duration::from_micros(d));
                    close_and_wait(c).is_ok()
                }));
            }
            for t in ths {
                if let Ok(false) = t.join() {
                    return Err(Outcome::Inconclusive("concurrent close did not finish".into()));
                }
            }
            seen.releases_after_saturation += victims.len() as u64;
            let snap = barrier(&w)?;
            quiescent_check(&w, &snap, "after concurrent releases", seen, &mut fails);
        }

        // ---- phase D: release held connections one at a time; each release must let one queued client in
        let mut queued_left = scn.queued as i64 - if scn.stress || released_while_paused > 0 { count_served(&mut w, first_extra) as i64 } else { 0 };
        for v in held {
            if !fails.is_empty() {
                break;
            }
            let c = std::mem::replace(&mut w.clients[v], dummy_client());
            let released_worker = worker_of_cid(c.cid);
            let before = monitor::dispatch_sequence(&verif::log_since(0)).len();
            close_and_wait(c)?;
            seen.releases_after_saturation += 1;
            let snap = barrier(&w)?;
            quiescent_check(&w, &snap, &format!("after releasing one connection of worker {released_worker:?}"), seen, &mut fails);
            let seq = monitor::dispatch_sequence(&verif::log_since(0));
            if queued_left > 0 {
                if seq.len() == before + 1 {
                    seen.redispatch_after_release += 1;
                    queued_left -= 1;
                    // the only worker with room is the one that released
                    if let Some(rw) = released_worker {
                        if seq[before].2 != rw && !scn.stress {
                            fails.push(fail(
                                "C04:dispatch-to-saturated-worker",
                                format!("after worker {rw} released a connection the queued client was dispatched to worker {} (which was at its limit)", seq[before].2),
                            ));
                        }
                    }
                }
            }
        }

        // ---- phase E (C04 rule b): with r workers holding one free slot each, the next r clients cover exactly them
        if fails.is_empty() && scn.workers >= 2 {
            // everything is released now or being served; bring the system to: all clients closed
            let all: Vec<Client> = w.clients.drain(..).collect();
            for c in all {
                close_and_wait(c)?;
            }
            let snap = barrier(&w)?;
            quiescent_check(&w, &snap, "after closing everything", seen, &mut fails);
            // fill all but one slot on every worker
            let fill = scn.workers * (scn.limit - 1);
            for i in 0..fill {
                connect(&mut w, i % nl, true)?;
            }
            let _ = barrier(&w)?;
            let before = monitor::dispatch_sequence(&verif::log_since(0)).len();
            for i in 0..scn.workers {
                connect(&mut w, i % nl, true)?;
            }
            let snap = barrier(&w)?;
            quiescent_check(&w, &snap, "after partial-set round", seen, &mut fails);
            let seq = monitor::dispatch_sequence(&verif::log_since(0));
            if seq.len() >= before + scn.workers {
                let wnd: Vec<usize> = seq[before..before + scn.workers].iter().map(|x| x.2).collect();
                let mut d = wnd.clone();
                d.sort();
                d.dedup();
                seen.rr_partial_sets_checked += 1;
                if d.len() != scn.workers {
                    fails.push(fail(
                        "C04:available-set-not-covered",
                        format!("every worker had exactly one free slot; the next {} dispatches went to {wnd:?} instead of covering all workers", scn.workers),
                    ));
                }
            }
        }
        Ok(())
    })();

    // ---- teardown (always)
    let clients: Vec<Client> = w.clients.drain(..).collect();
    let (stopped, _) = w.run.stop(false, Duration::from_secs(15));
    for c in clients {
        if c.cid != 0 {
            c.close();
        }
    }
    let joined = w.run.join(Duration::from_secs(15));
    let log = verif::log_since(0);
    verif::stop_recording();
    let threads_gone = engine::wait_threads_gone(baseline_threads, Duration::from_secs(10));
    for (name, hits, fired) in verif::failpoint_stats() {
        let _ = name;
        seen.failpoint_hits += fired;
        let _ = hits;
    }
    // boundary cross-check of C02 (no hooks needed): started-and-not-ended service futures per thread
    {
        let mut per_thread: BTreeMap<u64, i64> = BTreeMap::new();
        for r in &log {
            if let Ev::User { kind, .. } = &r.ev {
                match *kind {
                    "call" => {
                        let v = per_thread.entry(r.thread).or_insert(0);
                        *v += 1;
                        seen.boundary_concurrency_checks += 1;
                        if *v as usize > scn.limit {
                            fails.push(fail(
                                "C02:service-concurrency-beyond-limit",
                                format!("a worker thread has {} service calls started and not ended, limit {}", *v, scn.limit),
                            ));
                        }
                    }
                    "end" => {
                        *per_thread.entry(r.thread).or_insert(0) -= 1;
                    }
                    _ => {}
                }
            }
        }
        // dec-before-inc order observed? (release logged between a Dispatch and the next LoopIdle of the accept thread is the interesting window)
        let mut last_dispatch_worker: Option<usize> = None;
        for r in &log {
            match &r.ev {
                Ev::Dispatch { worker, .. } => last_dispatch_worker = Some(*worker),
                Ev::GuardDropBegin { worker } if last_dispatch_worker == Some(*worker) => {
                    seen.dec_before_inc_races += 1;
                    last_dispatch_worker = None;
                }
                Ev::LoopIdle(_) | Ev::Accepted { .. } => last_dispatch_worker = None,
                _ => {}
            }
        }
    }
    let (_, bound) = monitor::shadow(&log, scn.limit, false);
    if let Some(f) = bound {
        if !fails.iter().any(|x| x.sig == f.sig) {
            fails.push(f);
        }
    }
    match result {
        Err(Outcome::Violated(mut v)) => fails.append(&mut v),
        Err(Outcome::Inconclusive(why)) if fails.is_empty() => {
            return Outcome::Inconclusive(why);
        }
        _ => {}
    }
    if (!stopped || !joined || !threads_gone) && fails.is_empty() {
        return Outcome::Inconclusive("server did not stop in teardown".into());
    }
    if fails.is_empty() {
        Outcome::Held
    } else {
        Outcome::Violated(fails)
    }
}

fn dummy_client() -> Client {
    // placeholder for a client that has been taken out of the table
    let (a, _b) = std::os::unix::net::UnixStream::pair().unwrap();
    Client { cid: 0, listener: 0, sock: engine::Sock::Uds(a), served: false, closed_by_server: false }
}

fn count_served(w: &mut World, from: usize) -> usize {
    let mut n = 0;
    for c in w.clients[from..].iter_mut() {
        if c.cid != 0 && c.poll_ack(Duration::from_millis(1)) == Ack::Served {
            n += 1;
        }
    }
    n
}

// ------------------------------------------------------------------ wide servers (availability words beyond the first)

/// A server with more workers than one availability word holds (128 per word): every worker index lives in a
/// bitset word chosen by `idx / 128`. Limit 2. Phases: W sequential clients (no worker saturated: W distinct
/// workers), W more (everyone saturated), a few queued, then one release at a time on chosen indices around the word
/// boundaries: the queued client must go to exactly the worker that released.
pub fn run_wide(workers: usize, seed: u64, rt: RtKind, seen: &mut Seen) -> Outcome {
    let mut rng = Rng::new(seed ^ 0x71DE);
    let baseline_threads = engine::thread_count();
    verif::clear_injected_accept_errors();
    verif::set_abort_spin(false);
    verif::set_failpoints(&[], 0);
    verif::start_recording();
    let limit = 2usize;
    let cfg = ServerCfg { workers, limit, listeners: vec![LKind::Tcp], rt, shutdown_timeout: 1, backlog: 1024 };
    let run = match engine::start(&cfg, |_| {}) {
        Ok(r) => r,
        Err(e) => return Outcome::Inconclusive(e),
    };
    let mut w = World { run, clients: Vec::new(), limit, workers };
    let mut fails: Vec<Fail> = Vec::new();
    let result = (|| -> Result<(), Outcome> {
        // ---- first round: W sequential clients
        let mut worker_of: Vec<Option<usize>> = Vec::new();
        for _ in 0..workers {
            let idx = connect(&mut w, 0, true)?;
            if !w.clients[idx].served {
                fails.push(fail(
                    "C04:free-worker-not-used:wide",
                    format!("{workers} workers, limit {limit}: client #{idx} of the first round was not served although {} workers had received nothing yet", workers - idx),
                ));
                return Ok(());
            }
            worker_of.push(None);
        }
        let seq = monitor::dispatch_sequence(&verif::log_since(0));
        let wnd: Vec<usize> = seq.iter().take(workers).map(|x| x.2).collect();
        let mut d = wnd.clone();
        d.sort();
        d.dedup();
        seen.rr_windows_checked += 1;
        if wnd.len() != workers || d.len() != workers {
            let mut count: BTreeMap<usize, usize> = BTreeMap::new();
            for x in &wnd {
                *count.entry(*x).or_insert(0) += 1;
            }
            let twice: Vec<usize> = count.iter().filter(|(_, n)| **n > 1).map(|(k, _)| *k).collect();
            let never: Vec<usize> = (0..workers).filter(|k| !count.contains_key(k)).collect();
            fails.push(fail(
                "C04:window-not-distinct:wide",
                format!("{workers} workers, limit {limit}: the first {workers} dispatches (no worker saturated) hit {} distinct workers; hit twice: {twice:?}; never hit: {never:?}", d.len()),
            ));
            return Ok(());
        }
        // ---- saturate
        for _ in 0..workers {
            let idx = connect(&mut w, 0, true)?;
            if !w.clients[idx].served {
                fails.push(fail(
                    "C04:free-worker-not-used:wide",
                    format!("{workers} workers, limit {limit}: client #{idx} of the second round was not served although workers still had a free slot"),
                ));
                return Ok(());
            }
        }
        let _ = barrier(&w)?;
        let (c, _) = monitor::shadow(&verif::log_since(0), limit, false);
        let not_full: Vec<usize> = (0..workers).filter(|i| *c.in_flight.get(i).unwrap_or(&0) != limit as i64).collect();
        if !not_full.is_empty() {
            fails.push(fail(
                "C04:uneven-distribution-at-saturation:wide",
                format!("{} held connections on {workers} workers with limit {limit}: workers {not_full:?} do not hold exactly {limit}", 2 * workers),
            ));
            return Ok(());
        }
        seen.saturations += 1;
        // map client -> worker
        let log = verif::log_since(0);
        let mut cid_worker: BTreeMap<u64, usize> = BTreeMap::new();
        {
            let mut fd_worker: BTreeMap<i32, usize> = BTreeMap::new();
            let mut inst_thread_fd: BTreeMap<(u64, u64), i32> = BTreeMap::new();
            for r in &log {
                match &r.ev {
                    Ev::Dispatch { fd, worker, .. } => {
                        fd_worker.insert(*fd, *worker);
                    }
                    Ev::User { kind: "call", a, c, .. } => {
                        inst_thread_fd.insert((r.thread, *a), *c as i32);
                    }
                    Ev::User { kind: "identified", a, b, .. } => {
                        if let Some(fd) = inst_thread_fd.get(&(r.thread, *b)) {
                            if let Some(wk) = fd_worker.get(fd) {
                                cid_worker.insert(*a, *wk);
                            }
                        }
                    }
                    _ => {}
                }
            }
        }
        // ---- queue extra clients
        let queued = 3usize;
        let first_extra = w.clients.len();
        for _ in 0..queued {
            connect(&mut w, 0, false)?;
        }
        wait_queue(&w.run.addrs[0].clone(), queued as u64);
        let before = monitor::dispatch_sequence(&verif::log_since(0)).len();
        let _ = barrier(&w)?;
        let after = monitor::dispatch_sequence(&verif::log_since(0)).len();
        if after != before {
            fails.push(fail("C04:dispatch-to-saturated-worker:wide", format!("{workers} workers all at limit {limit}: {} queued connection(s) were dispatched nevertheless", after - before)));
            return Ok(());
        }
        // ---- release on chosen indices, one at a time
        let mut targets: Vec<usize> = [0usize, 63, 64, 127, 128, 129, 191, 255, 256, 257, 383, 384, 385, 511].iter().copied().filter(|k| *k < workers).collect();
        rng.shuffle(&mut targets);
        targets.truncate(queued);
        for k in targets {
            let pos = (0..first_extra).find(|i| w.clients[*i].cid != 0 && cid_worker.get(&w.clients[*i].cid) == Some(&k));
            let Some(pos) = pos else { continue };
            let c = std::mem::replace(&mut w.clients[pos], dummy_client());
            let before = monitor::dispatch_sequence(&verif::log_since(0)).len();
            close_and_wait(c)?;
            seen.releases_after_saturation += 1;
            let _ = barrier(&w)?;
            let seq = monitor::dispatch_sequence(&verif::log_since(0));
            if seq.len() == before {
                fails.push(fail(
                    "C04:released-slot-not-refilled:wide",
                    format!("{workers} workers at limit {limit}, clients queued: worker {k} released a connection and nothing was dispatched (its availability is not seen)"),
                ));
                return Ok(());
            }
            seen.redispatch_after_release += 1;
            seen.wide_releases_checked += 1;
            if seq[before].2 != k || seq.len() != before + 1 {
                fails.push(fail(
                    "C04:dispatch-to-saturated-worker:wide",
                    format!("{workers} workers at limit {limit}: after worker {k} released one connection the next dispatch(es) went to {:?}", seq[before..].iter().map(|x| x.2).collect::<Vec<_>>()),
                ));
                return Ok(());
            }
        }
        Ok(())
    })();
    let clients: Vec<Client> = w.clients.drain(..).collect();
    let (stopped, _) = w.run.stop(false, Duration::from_secs(30));
    for c in clients {
        if c.cid != 0 {
            c.close();
        }
    }
    let joined = w.run.join(Duration::from_secs(30));
    verif::stop_recording();
    let threads_gone = engine::wait_threads_gone(baseline_threads, Duration::from_secs(20));
    seen.wide_scenarios += 1;
    match result {
        Err(Outcome::Violated(mut v)) => fails.append(&mut v),
        Err(Outcome::Inconclusive(why)) if fails.is_empty() => return Outcome::Inconclusive(why),
        _ => {}
    }
    if (!stopped || !joined || !threads_gone) && fails.is_empty() {
        return Outcome::Inconclusive("wide server did not stop in teardown".into());
    }
    if fails.is_empty() {
        Outcome::Held
    } else {
        Outcome::Violated(fails)
    }
}

// ------------------------------------------------------------------ back-pressure meets other mechanisms

/// Mini-scenarios in which the back-pressure bookkeeping has to survive another mechanism of the server.
#[derive(Clone, Copy, Debug, PartialEq, Eq)]
pub enum Special {
    /// every worker is at its limit and clients are waiting; one service fails its readiness check and is re-created:
    /// still nothing may be dispatched (C02)
    RestartWhileSaturated,
    /// a service fails its readiness check while its worker is otherwise free; during the (slow) re-creation the accept
    /// thread fills that worker up to its limit, the connections wait in the worker's queue; one more client must stay
    /// in the backlog when the worker comes back (C04: a saturated worker receives nothing)
    RestartWithQueuedConnections,
    /// an accept error starts the back-off of the listener while the accept loop keeps being woken by other events;
    /// the connection waiting on that listener is dispatched once the back-off is over (C03)
    BackoffWithWakeups,
    /// the only worker with capacity dies; a client connects during the outage; when the replacement registers the
    /// waiting connection is dispatched to it (C03)
    RefillAfterReplacement,
}

fn instance_of_worker(k: usize, listener: u64) -> Option<u64> {
    // worker idx -> latest instance of `listener`'s service that took a connection dispatched to it
    let log = verif::log_since(0);
    let mut fd_worker: BTreeMap<i32, usize> = BTreeMap::new();
    let mut res = None;
    for r in &log {
        match &r.ev {
            Ev::Dispatch { fd, worker, .. } => {
                fd_worker.insert(*fd, *worker);
            }
            Ev::User { kind: "call", a, b, c } if *b == listener => {
                if fd_worker.get(&(*c as i32)) == Some(&k) {
                    res = Some(*a);
                }
            }
            _ => {}
        }
    }
    res
}

fn count_ev(pred: impl Fn(&Ev) -> bool) -> usize {
    verif::with_log(|l| l.iter().filter(|r| pred(&r.ev)).count())
}

pub fn run_special(kind: Special, seed: u64, seen: &mut Seen) -> Outcome {
    let mut rng = Rng::new(seed ^ 0x5bec);
    let baseline_threads = engine::thread_count();
    verif::clear_injected_accept_errors();
    verif::set_abort_spin(false);
    verif::set_failpoints(&[], 0);
    verif::start_recording();
    let workers = match kind {
        Special::RefillAfterReplacement => 1 + rng.usize(2),
        _ => 1 + rng.usize(3),
    };
    let limit = 1 + rng.usize(3);
    let rt = if rng.chance(1, 3) { RtKind::Tokio } else { RtKind::Actix };
    let cfg = ServerCfg { workers, limit, listeners: vec![LKind::Tcp], rt, shutdown_timeout: 1, backlog: 128 };
    let run = match engine::start(&cfg, |ctls| {
        for c in ctls {
            c.inner.lock().unwrap().keep_wakers = true;
        }
    }) {
        Ok(r) => r,
        Err(e) => return Outcome::Inconclusive(e),
    };
    let mut w = World { run, clients: Vec::new(), limit, workers };
    let mut fails: Vec<Fail> = Vec::new();
    let cap = workers * limit;
    let shape = format!("{kind:?} w{workers} l{limit} {rt:?}");
    let result = (|| -> Result<(), Outcome> {
        match kind {
            Special::RestartWhileSaturated => {
                for _ in 0..cap {
                    connect(&mut w, 0, true)?;
                }
                let _ = barrier(&w)?;
                let extra = 1 + rng.usize(2);
                for _ in 0..extra {
                    connect(&mut w, 0, false)?;
                }
                wait_queue(&w.run.addrs[0].clone(), extra as u64);
                let snap = barrier(&w)?;
                quiescent_check(&w, &snap, "saturated, clients queued", seen, &mut fails);
                let before = monitor::dispatch_sequence(&verif::log_since(0)).len();
                let k = rng.usize(workers);
                let Some(inst) = instance_of_worker(k, 0) else { return Err(Outcome::Inconclusive("no instance known for the worker".into())) };
                let created = count_ev(|e| matches!(e, Ev::User { kind: "factory_new", .. }));
                w.run.ctls[0].set_script(inst, &[engine::ReadyStep::Err]);
                match engine::wait_log(|l| l.iter().filter(|r| matches!(&r.ev, Ev::User { kind: "factory_new", .. })).count() > created, engine::WATCHDOG) {
                    Waited::Ok => {}
                    _ => return Err(Outcome::Inconclusive("service was not re-created".into())),
                }
                seen.service_restarts += 1;
                let snap = barrier(&w)?;
                quiescent_check(&w, &snap, &format!("{shape}: after the service of worker {k} was re-created"), seen, &mut fails);
                let after = monitor::dispatch_sequence(&verif::log_since(0)).len();
                if after != before {
                    fails.push(fail(
                        "C02:dispatch-while-all-saturated",
                        format!("{shape}: every worker held {limit} connection(s); after the service of worker {k} failed its readiness check and was re-created, {} waiting connection(s) were dispatched", after - before),
                    ));
                }
            }
            Special::RestartWithQueuedConnections => {
                for _ in 0..cap {
                    connect(&mut w, 0, true)?;
                }
                let _ = barrier(&w)?;
                // free every slot of worker k
                let k = rng.usize(workers);
                let Some(inst) = instance_of_worker(k, 0) else { return Err(Outcome::Inconclusive("no instance known for the worker".into())) };
                let mine: Vec<usize> = (0..w.clients.len()).filter(|i| worker_of_cid(w.clients[*i].cid) == Some(k)).collect();
                for i in mine {
                    let c = std::mem::replace(&mut w.clients[i], dummy_client());
                    close_and_wait(c)?;
                }
                let snap = barrier(&w)?;
                quiescent_check(&w, &snap, "one worker emptied", seen, &mut fails);
                // slow re-creation of its service: the worker thread is busy in the factory for 150 ms
                w.run.ctls[0].inner.lock().unwrap().factory_delay_ms.push_back(150);
                let created = count_ev(|e| matches!(e, Ev::User { kind: "factory_new", .. }));
                let before = monitor::dispatch_sequence(&verif::log_since(0)).len();
                w.run.ctls[0].set_script(inst, &[engine::ReadyStep::Err]);
                match engine::wait_log(|l| l.iter().filter(|r| matches!(&r.ev, Ev::User { kind: "factory_new", .. })).count() > created, engine::WATCHDOG) {
                    Waited::Ok => {}
                    _ => return Err(Outcome::Inconclusive("service was not re-created".into())),
                }
                // fill the worker through the accept thread while it is busy; one more must wait
                for _ in 0..limit {
                    connect(&mut w, 0, false)?;
                }
                match engine::wait_log(|l| l.iter().filter(|r| matches!(&r.ev, Ev::Dispatch { .. })).count() >= before + limit, Duration::from_secs(3)) {
                    Waited::Ok => {}
                    _ => return Err(Outcome::Inconclusive("the accept thread did not fill the restarting worker".into())),
                }
                connect(&mut w, 0, false)?;
                wait_queue(&w.run.addrs[0].clone(), 1);
                seen.service_restarts += 1;
                seen.restarts_with_queued_connections += 1;
                thread::sleep(Duration::from_millis(200));
                let snap = barrier(&w)?;
                quiescent_check(&w, &snap, &format!("{shape}: after the restart of worker {k}'s service with {limit} connection(s) queued at it"), seen, &mut fails);
                let seq = monitor::dispatch_sequence(&verif::log_since(0));
                if seq.len() != before + limit {
                    fails.push(fail(
                        "C04:dispatch-to-saturated-worker",
                        format!(
                            "{shape}: worker {k} was filled to its limit while its service was being re-created (connections waiting in its queue); afterwards {} more connection(s) were dispatched, to workers {:?}, although every worker was at its limit",
                            seq.len() as i64 - (before + limit) as i64,
                            seq[(before + limit).min(seq.len())..].iter().map(|x| x.2).collect::<Vec<_>>()
                        ),
                    ));
                }
            }
            Special::BackoffWithWakeups => {
                // some load first
                let held = rng.usize(cap);
                for _ in 0..held {
                    connect(&mut w, 0, true)?;
                }
                let _ = barrier(&w)?;
                verif::inject_accept_errors(&w.run.addrs[0].display_key(), &[crate::c05::EMFILE]);
                let idx = connect(&mut w, 0, false)?;
                match engine::wait_log(|l| l.iter().any(|r| matches!(&r.ev, Ev::InjectedAcceptError { .. })), Duration::from_secs(3)) {
                    Waited::Ok => {}
                    _ => return Err(Outcome::Inconclusive("the injected accept error was not consumed".into())),
                }
                let t0 = Instant::now();
                // the accept loop is woken every 100 ms while the back-off deadline passes
                while t0.elapsed() < Duration::from_millis(800) {
                    thread::sleep(Duration::from_millis(100));
                    let _ = w.run.accept_barrier(false);
                }
                seen.backoffs_with_wakeups += 1;
                let snap = barrier(&w)?;
                let backing_off = snap.listeners.iter().any(|(_, b)| *b);
                if backing_off {
                    fails.push(fail(
                        "C03:listener-not-rearmed-after-backoff",
                        format!(
                            "{shape}: {} ms after an accept error (EMFILE) the listener is still deregistered for its back-off although the accept loop has been running (woken every 100 ms); a connection is waiting on it and workers have free slots; last events {:?}",
                            t0.elapsed().as_millis(),
                            monitor::tail(&verif::log_since(0), 8)
                        ),
                    ));
                } else {
                    quiescent_check(&w, &snap, &format!("{shape}: after the back-off"), seen, &mut fails);
                    let c = &mut w.clients[idx];
                    let t1 = Instant::now();
                    while c.poll_ack(Duration::from_millis(20)) == Ack::NotYet && t1.elapsed() < Duration::from_secs(3) {}
                    if !c.served && fails.is_empty() {
                        if vh_core::proc::quiescent(Duration::from_millis(1500)) == Some(true) {
                            fails.push(fail("C03:spare-capacity-unused:after-backoff", format!("{shape}: the connection that met the accept error was not served after the back-off although workers have free slots; process quiescent")));
                        } else {
                            return Err(Outcome::Inconclusive("client after back-off not served yet, process busy".into()));
                        }
                    }
                }
            }
            Special::RefillAfterReplacement => {
                // everyone but worker 0's slot... simply: saturate all workers except the one that will die and be replaced
                for _ in 0..workers {
                    let idx = connect(&mut w, 0, true)?;
                    let _ = idx;
                }
                let _ = barrier(&w)?;
                // learn who serves whom; the victim is the worker of the first client
                let victim = worker_of_cid(w.clients[0].cid).ok_or_else(|| Outcome::Inconclusive("cannot map client to worker".into()))?;
                // fill the other workers completely, release the victim's connection
                let c0 = std::mem::replace(&mut w.clients[0], dummy_client());
                close_and_wait(c0)?;
                let _ = barrier(&w)?;
                let mut guard = 0;
                loop {
                    let (c, _) = monitor::shadow(&verif::log_since(0), limit, false);
                    let others_full = (0..workers).filter(|i| *i != victim).all(|i| *c.in_flight.get(&i).unwrap_or(&0) >= limit as i64);
                    let victim_load = *c.in_flight.get(&victim).unwrap_or(&0);
                    if others_full && victim_load == 0 {
                        break;
                    }
                    guard += 1;
                    if guard > 4 * cap + 8 {
                        return Err(Outcome::Inconclusive("could not reach: victim empty, others full".into()));
                    }
                    let idx = connect(&mut w, 0, true)?;
                    let _ = barrier(&w)?;
                    if worker_of_cid(w.clients[idx].cid) == Some(victim) {
                        let c = std::mem::replace(&mut w.clients[idx], dummy_client());
                        close_and_wait(c)?;
                        let _ = barrier(&w)?;
                    }
                }
                // the replacement takes 300 ms to build
                {
                    let mut g = w.run.ctls[0].inner.lock().unwrap();
                    g.factory_delay_ms.push_back(300);
                    g.panic_next_call = true;
                }
                // this connection goes to the victim (the only worker with room) and kills it
                let a = Client::connect(&w.run.addrs[0], 0, b'F').map_err(|e| Outcome::Inconclusive(format!("connect: {e}")))?;
                // the death is discovered by the next dispatch to it
                let t0 = Instant::now();
                let mut probes = Vec::new();
                while count_ev(|e| matches!(e, Ev::DispatchFailed { .. })) == 0 && t0.elapsed() < Duration::from_secs(5) {
                    thread::sleep(Duration::from_millis(20));
                    if let Ok(c) = Client::connect(&w.run.addrs[0], 0, b'F') {
                        probes.push(c);
                    }
                    thread::sleep(Duration::from_millis(30));
                }
                if count_ev(|e| matches!(e, Ev::DispatchFailed { .. })) == 0 {
                    return Err(Outcome::Inconclusive("the worker's death was not discovered".into()));
                }
                // during the outage: one client connects and has to wait (no worker has room)
                let waiting = Client::connect(&w.run.addrs[0], 0, b'H').map_err(|e| Outcome::Inconclusive(format!("connect: {e}")))?;
                match engine::wait_log(|l| l.iter().any(|r| matches!(&r.ev, Ev::Interest { kind: "worker", .. })), Duration::from_secs(10)) {
                    Waited::Ok => {}
                    _ => return Err(Outcome::Inconclusive("no replacement adopted".into())),
                }
                seen.refills_after_replacement += 1;
                let _ = w.run.accept_barrier(false);
                thread::sleep(Duration::from_millis(80));
                let snap = w.run.accept_barrier(false).map_err(|_| Outcome::Inconclusive("accept thread did not answer".into()))?;
                let spare: i64 = snap.counters.iter().map(|(_, total)| (limit as i64 - *total as i64).max(0)).sum();
                let queued = match &w.run.addrs[0] {
                    Addr::Tcp(a) => monitor::tcp_accept_queue(a.port()).unwrap_or(0),
                    _ => 0,
                };
                if queued > 0 && spare > 0 {
                    // once more, so that a connection that is just being taken is not counted
                    thread::sleep(Duration::from_millis(100));
                    let snap2 = w.run.accept_barrier(false).map_err(|_| Outcome::Inconclusive("accept thread did not answer".into()))?;
                    let spare2: i64 = snap2.counters.iter().map(|(_, total)| (limit as i64 - *total as i64).max(0)).sum();
                    let queued2 = match &w.run.addrs[0] {
                        Addr::Tcp(a) => monitor::tcp_accept_queue(a.port()).unwrap_or(0),
                        _ => 0,
                    };
                    if queued2 > 0 && spare2 > 0 {
                        fails.push(fail(
                            "C03:spare-capacity-unused:after-worker-replacement",
                            format!(
                                "{shape}: worker {victim} died and was replaced; {queued2} connection(s) that arrived during the outage are still in the listener's accept queue although the replacement has {spare2} free slot(s) and the accept loop is idle; handles {:?} counters {:?}; last events {:?}",
                                snap2.handles,
                                snap2.counters,
                                monitor::tail(&verif::log_since(0), 8)
                            ),
                        ));
                    }
                }
                a.close();
                for p in probes {
                    p.close();
                }
                waiting.close();
            }
        }
        Ok(())
    })();
    let clients: Vec<Client> = w.clients.drain(..).collect();
    let (stopped, _) = w.run.stop(false, Duration::from_secs(15));
    for c in clients {
        if c.cid != 0 {
            c.close();
        }
    }
    let joined = w.run.join(Duration::from_secs(15));
    verif::stop_recording();
    verif::clear_injected_accept_errors();
    let threads_gone = engine::wait_threads_gone(baseline_threads, Duration::from_secs(10));
    seen.special_scenarios += 1;
    match result {
        Err(Outcome::Violated(mut v)) => fails.append(&mut v),
        Err(Outcome::Inconclusive(why)) if fails.is_empty() => return Outcome::Inconclusive(why),
        _ => {}
    }
    if (!stopped || !joined || !threads_gone) && fails.is_empty() {
        return Outcome::Inconclusive("server did not stop in teardown".into());
    }
    if fails.is_empty() {
        Outcome::Held
    } else {
        Outcome::Violated(fails)
    }
}
