//! Boundary-only stress workload for the sanitizer layers (ThreadSanitizer / AddressSanitizer): a real
//! actix-server built WITHOUT the verification hooks (their log mutex would add happens-before edges and hide
//! races). All harness-side bookkeeping uses relaxed atomics; oracles are the boundary versions of
//! C01 (each connection identified at most once, by its own listener's service), C02 (service-call
//! concurrency per worker thread <= limit) and C06/C08 (stop completes; service resumes after a worker death).

use std::{
    collections::HashMap,
    future::Future,
    io::{Read, Write},
    net::TcpStream as StdTcp,
    pin::Pin,
    sync::{
        atomic::{AtomicU64, AtomicUsize, Ordering::Relaxed},
        mpsc, Arc, Mutex,
    },
    task::{Context, Poll, Wake, Waker},
    thread,
    time::{Duration, Instant},
};

use actix_server::Server;
use actix_service::{Service, ServiceFactory};
use tokio::io::{AsyncReadExt, AsyncWriteExt};
use vh_core::{fnv_str, json, Args, Report, Rng};

struct ThreadWaker(thread::Thread);
impl Wake for ThreadWaker {
    fn wake(self: Arc<Self>) {
        self.0.unpark();
    }
}
fn block_on_timeout<F: Future>(fut: F, timeout: Duration) -> Option<F::Output> {
    let mut fut = Box::pin(fut);
    let waker = Waker::from(Arc::new(ThreadWaker(thread::current())));
    let mut cx = Context::from_waker(&waker);
    let t0 = Instant::now();
    loop {
        if let Poll::Ready(v) = fut.as_mut().poll(&mut cx) {
            return Some(v);
        }
        let left = timeout.checked_sub(t0.elapsed())?;
        thread::park_timeout(left.min(Duration::from_millis(20)));
    }
}

/// Shared, lock-free observations.
struct Obs {
    /// served[cid] = listener + 1 of the service that identified it (0 = not served); a second identification sets bit 63
    served: Vec<AtomicU64>,
    /// per worker thread slot: calls started and not ended
    in_flight: Vec<AtomicUsize>,
    max_in_flight: AtomicUsize,
    thread_slots: Mutex<HashMap<thread::ThreadId, usize>>,
    panics_left: AtomicUsize,
    factory_news: AtomicUsize,
}

thread_local! {
    static SLOT: std::cell::Cell<usize> = const { std::cell::Cell::new(usize::MAX) };
}

fn slot(obs: &Obs) -> usize {
    SLOT.with(|s| {
        if s.get() == usize::MAX {
            let mut m = obs.thread_slots.lock().unwrap();
            let n = m.len();
            let v = *m.entry(thread::current().id()).or_insert(n);
            s.set(v);
        }
        s.get()
    })
}

#[derive(Clone)]
struct Fac {
    listener: u64,
    obs: Arc<Obs>,
}
struct Svc {
    listener: u64,
    obs: Arc<Obs>,
}

impl ServiceFactory<actix_rt::net::TcpStream> for Fac {
    type Response = ();
    type Error = ();
    type Config = ();
    type Service = Svc;
    type InitError = ();
    type Future = Pin<Box<dyn Future<Output = Result<Svc, ()>>>>;
    fn new_service(&self, _: ()) -> Self::Future {
        self.obs.factory_news.fetch_add(1, Relaxed);
        let (listener, obs) = (self.listener, self.obs.clone());
        Box::pin(async move { Ok(Svc { listener, obs }) })
    }
}

struct InFlight(Arc<Obs>, usize);
impl Drop for InFlight {
    fn drop(&mut self) {
        self.0.in_flight[self.1].fetch_sub(1, Relaxed);
    }
}

impl Service<actix_rt::net::TcpStream> for Svc {
    type Response = ();
    type Error = ();
    type Future = Pin<Box<dyn Future<Output = Result<(), ()>>>>;
    actix_service::always_ready!();
    fn call(&self, mut stream: actix_rt::net::TcpStream) -> Self::Future {
        let obs = self.obs.clone();
        let listener = self.listener;
        let s = slot(&obs);
        let n = obs.in_flight[s].fetch_add(1, Relaxed) + 1;
        obs.max_in_flight.fetch_max(n, Relaxed);
        let guard = InFlight(obs.clone(), s);
        if obs.panics_left.load(Relaxed) > 0 && obs.panics_left.fetch_sub(1, Relaxed) > 0 {
            panic!("scripted call panic");
        }
        Box::pin(async move {
            let _g = guard;
            let mut hdr = [0u8; 9];
            stream.read_exact(&mut hdr).await.map_err(|_| ())?;
            let cid = u64::from_le_bytes(hdr[..8].try_into().unwrap()) as usize;
            if cid < obs.served.len() {
                let prev = obs.served[cid].swap(listener + 1, Relaxed);
                if prev != 0 {
                    obs.served[cid].store(prev | (1 << 63), Relaxed);
                }
            }
            stream.write_all(b"k").await.map_err(|_| ())?;
            if hdr[8] == b'H' {
                let mut b = [0u8; 8];
                loop {
                    match stream.read(&mut b).await {
                        Ok(0) | Err(_) => break,
                        Ok(_) => {}
                    }
                }
            }
            Ok(())
        })
    }
}

struct Scn {
    workers: usize,
    limit: usize,
    listeners: usize,
    actix: bool,
    threads: usize,
    per_thread: usize,
    pause_resume: bool,
    graceful: bool,
    panics: usize,
}

fn run_scn(scn: &Scn, seed: u64) -> Result<(u64, u64), (String, String)> {
    let total = scn.threads * scn.per_thread + 64;
    let obs = Arc::new(Obs {
        served: (0..total).map(|_| AtomicU64::new(0)).collect(),
        in_flight: (0..64).map(|_| AtomicUsize::new(0)).collect(),
        max_in_flight: AtomicUsize::new(0),
        thread_slots: Mutex::new(HashMap::new()),
        panics_left: AtomicUsize::new(0),
        factory_news: AtomicUsize::new(0),
    });
    let mut lst = Vec::new();
    let mut addrs = Vec::new();
    for _ in 0..scn.listeners {
        let l = std::net::TcpListener::bind("127.0.0.1:0").map_err(|e| ("harness".to_string(), e.to_string()))?;
        addrs.push(l.local_addr().unwrap());
        lst.push(l);
    }
    let (htx, hrx) = mpsc::channel();
    let (workers, limit, actix) = (scn.workers, scn.limit, scn.actix);
    let obs2 = obs.clone();
    let server_thread = thread::spawn(move || {
        let body = async move {
            let mut b = Server::build().workers(workers).max_concurrent_connections(limit).shutdown_timeout(1).disable_signals();
            for (i, l) in lst.into_iter().enumerate() {
                let f = Fac { listener: i as u64, obs: obs2.clone() };
                b = b.listen(format!("l{i}"), l, move || f.clone()).unwrap();
            }
            let srv = b.run();
            let _ = htx.send(srv.handle());
            let _ = srv.await;
        };
        if actix {
            actix_rt::System::new().block_on(body);
        } else {
            tokio::runtime::Builder::new_current_thread().enable_all().build().unwrap().block_on(body);
        }
    });
    let handle = hrx.recv_timeout(Duration::from_secs(60)).map_err(|_| ("harness".to_string(), "server did not start".to_string()))?;
    obs.panics_left.store(scn.panics, Relaxed);

    // ---- clients
    let next_cid = Arc::new(AtomicUsize::new(1));
    let conn_listener: Arc<Vec<AtomicU64>> = Arc::new((0..total).map(|_| AtomicU64::new(0)).collect());
    let mut ths = Vec::new();
    for t in 0..scn.threads {
        let (addrs, next_cid, conn_listener) = (addrs.clone(), next_cid.clone(), conn_listener.clone());
        let n = scn.per_thread;
        let mut r = Rng::new(seed ^ (t as u64 + 1) * 7919);
        ths.push(thread::spawn(move || {
            let mut held: Vec<StdTcp> = Vec::new();
            let mut acked = 0u64;
            for _ in 0..n {
                let l = r.usize(addrs.len());
                let cid = next_cid.fetch_add(1, Relaxed);
                if let Ok(mut s) = StdTcp::connect_timeout(&addrs[l], Duration::from_secs(5)) {
                    conn_listener[cid].store(l as u64 + 1, Relaxed);
                    let mut hdr = [0u8; 9];
                    hdr[..8].copy_from_slice(&(cid as u64).to_le_bytes());
                    hdr[8] = if r.chance(1, 2) { b'H' } else { b'F' };
                    let _ = s.write_all(&hdr);
                    let _ = s.set_read_timeout(Some(Duration::from_millis(r.below(30) + 1)));
                    let mut b = [0u8; 1];
                    if let Ok(1) = s.read(&mut b) {
                        acked += 1;
                    }
                    if r.chance(2, 3) {
                        held.push(s);
                    }
                    if held.len() > 3 {
                        let k = r.usize(held.len());
                        held.swap_remove(k);
                    }
                }
            }
            (held, acked)
        }));
    }
    if scn.pause_resume {
        thread::sleep(Duration::from_millis(2));
        let _ = block_on_timeout(handle.pause(), Duration::from_secs(20));
        thread::sleep(Duration::from_millis(3));
        let _ = block_on_timeout(handle.resume(), Duration::from_secs(20));
    }
    let mut held_all = Vec::new();
    let mut acked = 0;
    for t in ths {
        if let Ok((h, a)) = t.join() {
            held_all.extend(h);
            acked += a;
        }
    }
    // after a worker death the server must keep serving: one more client must be acknowledged
    // (held connections may occupy every slot: release them first)
    if scn.panics > 0 {
        held_all.clear();
        let t0 = Instant::now();
        let mut ok = false;
        while t0.elapsed() < Duration::from_secs(30) && !ok {
            if let Ok(mut s) = StdTcp::connect_timeout(&addrs[0], Duration::from_secs(5)) {
                let cid = next_cid.fetch_add(1, Relaxed);
                let mut hdr = [0u8; 9];
                hdr[..8].copy_from_slice(&(cid as u64).to_le_bytes());
                hdr[8] = b'F';
                let _ = s.write_all(&hdr);
                let _ = s.set_read_timeout(Some(Duration::from_millis(500)));
                let mut b = [0u8; 1];
                if let Ok(1) = s.read(&mut b) {
                    ok = true;
                }
            }
        }
        if !ok {
            return Err((
                "C08:tsan-workload:service-not-resumed".into(),
                format!(
                    "no client was served within 30 s after scripted worker deaths (service instances created: {}, panics left: {}, calls in progress per thread slot: {:?})",
                    obs.factory_news.load(Relaxed),
                    obs.panics_left.load(Relaxed),
                    obs.in_flight.iter().take(6).map(|x| x.load(Relaxed)).collect::<Vec<_>>()
                ),
            ));
        }
    }
    let stopped = block_on_timeout(handle.stop(scn.graceful), Duration::from_secs(60)).is_some();
    drop(held_all);
    if !stopped {
        return Err(("C06:tsan-workload:stop-never-resolves".into(), "stop() did not resolve within 60 s under the sanitizer".into()));
    }
    let _ = server_thread.join();

    // ---- boundary oracles
    let mut served = 0u64;
    for cid in 1..total {
        let v = obs.served[cid].load(Relaxed);
        if v == 0 {
            continue;
        }
        served += 1;
        if v & (1 << 63) != 0 {
            return Err(("C01:tsan-workload:connection-served-twice".into(), format!("connection {cid} was identified by two service calls")));
        }
        let want = conn_listener[cid].load(Relaxed);
        if want != 0 && v != want {
            return Err(("C01:tsan-workload:wrong-listener-service".into(), format!("connection {cid} made to listener {} was served by listener {}'s service", want - 1, v - 1)));
        }
    }
    let max = obs.max_in_flight.load(Relaxed);
    if scn.panics == 0 && max > scn.limit {
        return Err(("C02:tsan-workload:service-concurrency-beyond-limit".into(), format!("{max} service calls in progress on one worker thread, limit {}", scn.limit)));
    }
    Ok((served, acked))
}

fn main() {
    vh_core::install_quiet_panic_hook();
    let args = Args::parse();
    if args.prop == "__warm__" {
        return;
    }
    let mut rep = Report::new(&args);
    let n = args.extra_u64("n", 60);
    let mut rng = Rng::new(args.seed ^ 0x7541).fork(args.shard);
    let (mut served, mut acked, mut with_panics) = (0u64, 0u64, 0u64);
    let fixed = args.extra.get("case_seed").and_then(|v| v.parse::<u64>().ok());
    for i in 0..n {
        let mut seed = rng.next_u64();
        if !args.mine(i) {
            continue;
        }
        if let Some(f) = fixed {
            seed = f;
        }
        let mut r = Rng::new(seed);
        let scn = Scn {
            workers: 1 + r.usize(3),
            limit: 1 + r.usize(3),
            listeners: 1 + r.usize(2),
            actix: r.chance(2, 3),
            threads: 2 + r.usize(5),
            per_thread: 4 + r.usize(10),
            pause_resume: r.chance(1, 3),
            graceful: r.chance(1, 2),
            // faults only for the fault property: they legitimately break the C02 bound
            panics: if args.prop == "C08" && r.chance(2, 3) { 1 + r.usize(2) } else { 0 },
        };
        let shape = format!("w{} l{} n{} actix{} t{}x{} pr{} g{} p{}", scn.workers, scn.limit, scn.listeners, scn.actix as u8, scn.threads, scn.per_thread, scn.pause_resume as u8, scn.graceful as u8, scn.panics);
        rep.evaluations += 1;
        if scn.panics > 0 {
            with_panics += 1;
        }
        match run_scn(&scn, seed) {
            Ok((s, a)) => {
                served += s;
                acked += a;
                rep.nontrivial(fnv_str(&shape));
            }
            Err((sig, desc)) if sig == "harness" => rep.inconclusive(&desc),
            Err((sig, desc)) => {
                if sig.starts_with(&args.prop) {
                    rep.violation(sig, format!("{desc} [{shape}]"), json!({"prop": args.prop, "case_seed": seed, "shape": shape}));
                } else {
                    rep.count("other_property_violations_seen");
                }
            }
        }
        if i < 3 * args.nshards {
            rep.sample(|| json!({"shape": shape}));
        }
    }
    rep.rule = "sanitizer workload (no hooks): real actix-server, workers 1..3 x limit 1..3 x 1..2 TCP listeners x {Actix, Tokio}, 2..6 client threads x 4..13 connections (hold / finish, random releases), optional pause+resume, graceful or forced stop, for C08 also 1..2 scripted call panics; \
                boundary oracles with relaxed atomics only (identified at most once and by the right listener's service; per-thread call concurrency <= limit without faults; stop resolves; service resumes after worker deaths). The deciding observer of this layer is the sanitizer itself (any report fails the check)."
        .into();
    rep.add("obs_tsan_workload_connections_served", served);
    rep.add("obs_tsan_workload_clients_acked", acked);
    rep.add("obs_tsan_workload_fault_scenarios", with_panics);
    std::process::exit(rep.finish(&args));
}
