//! Boundary-only stress workload for the sanitizer layers (ThreadSanitizer / AddressSanitizer): a real
//! actix-server built WITHOUT the verification hooks (their log mutex would add happens-before edges and hide
//! races). All harness-side bookkeeping uses relaxed atomics; oracles are the boundary versions of
//! C01 (each connection identified at most once, by its own listener's service), C02 (service-call
//! concurrency per worker thread <= limit) and C06/C08 (stop completes; service resumes after a worker death).

use std::{
    collections::HashMap,
    future::Future,
    io::{Read, Write},
    net::TcpStream as StdTcp,
    pin::Pin,
    sync::{
        atomic::{AtomicU64, AtomicUsize, Ordering::Relaxed},
        mpsc, Arc, Mutex,
    },
    task::{Context, Poll, Wake, Waker},
    thread,
    time::{Duration, Instant},
};

use actix_server::Server;
use actix_service::{Service, ServiceFactory};
use tokio::io::{AsyncReadExt, AsyncWriteExt};
use vh_core::{fnv_str, json, Args, Report, Rng};

struct ThreadWaker(thread::Thread);
impl Wake for ThreadWaker {
    fn wake(self: Arc<Self>) {
        self.0.unpark();
    }
}
fn block_on_timeout<F: Future>(fut: F, timeout: Duration) -> Option<F::Output> {
    let mut fut = Box::pin(fut);
    let waker = Waker::from(Arc::new(ThreadWaker(thread::current())));
    let mut cx = Context::from_waker(&waker);
    let t0 = Instant::now();
    loop {
        if let Poll::Ready(v) = fut.as_mut().poll(&mut cx) {
            return Some(v);
        }
        let left = timeout.checked_sub(t0.elapsed())?;
        thread::park_timeout(left.min(Duration::from_millis(20)));
    }
}

/// Shared, lock-free observations.
struct Obs {
    /// served[cid] = listener + 1 of the service that identified it (0 = not served); a second identification sets bit 63
    served: Vec<AtomicU64>,
    /// per worker thread slot: calls started and not ended
    in_flight: Vec<AtomicUsize>,
    max_in_flight: AtomicUsize,
    thread_slots: Mutex<HashMap<thread::ThreadId, usize>>,
    panics_left: AtomicUsize,
    factory_news: AtomicUsize,
    /// slot_of[cid] = worker thread slot + 1 of the call that identified it
    slot_of: Vec<AtomicU64>,
    nlisteners: usize,
    /// C07 workload: scripted readiness. ready[slot * 4 + listener] = 1 iff that service's latest readiness answer on
    /// that worker thread was Ready and no call has happened on that thread since
    c07_on: std::sync::atomic::AtomicBool,
    ready: Vec<std::sync::atomic::AtomicU8>,
    c07_calls_checked: AtomicU64,
    c07_pendings: AtomicU64,
    c07_errs: AtomicU64,
    c07_errs_left: AtomicUsize,
    c07_bad: Mutex<Option<String>>,
}

thread_local! {
    static SLOT: std::cell::Cell<usize> = const { std::cell::Cell::new(usize::MAX) };
}

fn slot(obs: &Obs) -> usize {
    SLOT.with(|s| {
        if s.get() == usize::MAX {
            let mut m = obs.thread_slots.lock().unwrap();
            let n = m.len();
            let v = *m.entry(thread::current().id()).or_insert(n);
            s.set(v);
        }
        s.get()
    })
}

#[derive(Clone)]
struct Fac {
    listener: u64,
    obs: Arc<Obs>,
}
struct Svc {
    listener: u64,
    obs: Arc<Obs>,
    polls: std::cell::Cell<u64>,
}

impl ServiceFactory<actix_rt::net::TcpStream> for Fac {
    type Response = ();
    type Error = ();
    type Config = ();
    type Service = Svc;
    type InitError = ();
    type Future = Pin<Box<dyn Future<Output = Result<Svc, ()>>>>;
    fn new_service(&self, _: ()) -> Self::Future {
        self.obs.factory_news.fetch_add(1, Relaxed);
        let (listener, obs) = (self.listener, self.obs.clone());
        Box::pin(async move { Ok(Svc { listener, obs, polls: std::cell::Cell::new(0) }) })
    }
}

struct InFlight(Arc<Obs>, usize);
impl Drop for InFlight {
    fn drop(&mut self) {
        #[cfg(actix_net_verif)]
        actix_server::verif::emit(actix_server::verif::Ev::User { kind: "plain_end", a: self.1 as u64, b: 0, c: 0 });
        self.0.in_flight[self.1].fetch_sub(1, Relaxed);
    }
}

impl Service<actix_rt::net::TcpStream> for Svc {
    type Response = ();
    type Error = ();
    type Future = Pin<Box<dyn Future<Output = Result<(), ()>>>>;
    fn poll_ready(&self, cx: &mut std::task::Context<'_>) -> Poll<Result<(), ()>> {
        if !self.obs.c07_on.load(Relaxed) {
            return Poll::Ready(Ok(()));
        }
        let s = slot(&self.obs);
        let cell = &self.obs.ready[(s % 64) * 4 + self.listener as usize];
        let n = self.polls.get();
        self.polls.set(n + 1);
        if n % 7 == 3 {
            // not ready for a moment; woken by a timer on the worker's own runtime
            cell.store(0, Relaxed);
            self.obs.c07_pendings.fetch_add(1, Relaxed);
            let w = cx.waker().clone();
            tokio::task::spawn_local(async move {
                tokio::time::sleep(Duration::from_micros(300)).await;
                w.wake();
            });
            return Poll::Pending;
        }
        if n % 11 == 5 && self.obs.c07_errs_left.load(Relaxed) > 0 && self.obs.c07_errs_left.fetch_sub(1, Relaxed) > 0 {
            // readiness failure: the worker re-creates this service from its factory
            cell.store(0, Relaxed);
            self.obs.c07_errs.fetch_add(1, Relaxed);
            return Poll::Ready(Err(()));
        }
        cell.store(1, Relaxed);
        Poll::Ready(Ok(()))
    }
    fn call(&self, mut stream: actix_rt::net::TcpStream) -> Self::Future {
        let obs = self.obs.clone();
        let listener = self.listener;
        let s = slot(&obs);
        if obs.c07_on.load(Relaxed) {
            // boundary monitor: every service of this worker answered Ready since the previous call on this thread
            let base = (s % 64) * 4;
            let answers: Vec<u8> = (0..obs.nlisteners).map(|l| obs.ready[base + l].load(Relaxed)).collect();
            if answers.iter().any(|a| *a != 1) {
                let mut g = obs.c07_bad.lock().unwrap();
                if g.is_none() {
                    *g = Some(format!("service of listener {listener} was called on worker thread slot {s} although the latest readiness answers of that worker's services (1 = Ready since the previous call) are {answers:?}"));
                }
            }
            for l in 0..obs.nlisteners {
                obs.ready[base + l].store(0, Relaxed);
            }
            obs.c07_calls_checked.fetch_add(1, Relaxed);
        }
        let n = obs.in_flight[s].fetch_add(1, Relaxed) + 1;
        obs.max_in_flight.fetch_max(n, Relaxed);
        #[cfg(actix_net_verif)]
        actix_server::verif::emit(actix_server::verif::Ev::User { kind: "plain_call", a: s as u64, b: n as u64, c: 0 });
        let guard = InFlight(obs.clone(), s);
        if obs.panics_left.load(Relaxed) > 0 && obs.panics_left.fetch_sub(1, Relaxed) > 0 {
            panic!("scripted call panic");
        }
        Box::pin(async move {
            let _g = guard;
            let mut hdr = [0u8; 9];
            stream.read_exact(&mut hdr).await.map_err(|_| ())?;
            let cid = u64::from_le_bytes(hdr[..8].try_into().unwrap()) as usize;
            if cid < obs.served.len() {
                obs.slot_of[cid].store(s as u64 + 1, Relaxed);
                let prev = obs.served[cid].swap(listener + 1, Relaxed);
                if prev != 0 {
                    obs.served[cid].store(prev | (1 << 63), Relaxed);
                }
            }
            stream.write_all(b"k").await.map_err(|_| ())?;
            if hdr[8] == b'H' {
                let mut b = [0u8; 8];
                loop {
                    match stream.read(&mut b).await {
                        Ok(0) | Err(_) => break,
                        Ok(_) => {}
                    }
                }
            }
            Ok(())
        })
    }
}

struct Scn {
    workers: usize,
    limit: usize,
    listeners: usize,
    actix: bool,
    threads: usize,
    per_thread: usize,
    pause_resume: bool,
    graceful: bool,
    panics: usize,
}

#[derive(Default)]
struct Extra {
    rr_windows: u64,
    paused_probes: u64,
    pending_drained: u64,
    c07_calls: u64,
    c07_pendings: u64,
    c07_errs: u64,
}

fn hdr_for(cid: usize, mode: u8) -> [u8; 9] {
    let mut hdr = [0u8; 9];
    hdr[..8].copy_from_slice(&(cid as u64).to_le_bytes());
    hdr[8] = mode;
    hdr
}

/// Waits up to `max` for the one-byte acknowledgement.
fn acked_within(s: &mut StdTcp, max: Duration) -> bool {
    let t0 = Instant::now();
    let _ = s.set_read_timeout(Some(Duration::from_millis(20)));
    let mut b = [0u8; 1];
    while t0.elapsed() < max {
        match s.read(&mut b) {
            Ok(1) => return true,
            Ok(_) => return false,
            Err(e) if e.kind() == std::io::ErrorKind::WouldBlock || e.kind() == std::io::ErrorKind::TimedOut => {}
            Err(_) => return false,
        }
    }
    false
}

fn run_scn(scn: &Scn, seed: u64, prop: &str, extra: &mut Extra) -> Result<(u64, u64), (String, String)> {
    #[cfg(actix_net_verif)]
    actix_server::verif::start_recording();
    let total = scn.threads * scn.per_thread + 64;
    let obs = Arc::new(Obs {
        served: (0..total).map(|_| AtomicU64::new(0)).collect(),
        in_flight: (0..64).map(|_| AtomicUsize::new(0)).collect(),
        max_in_flight: AtomicUsize::new(0),
        thread_slots: Mutex::new(HashMap::new()),
        panics_left: AtomicUsize::new(0),
        factory_news: AtomicUsize::new(0),
        slot_of: (0..total).map(|_| AtomicU64::new(0)).collect(),
        nlisteners: scn.listeners,
        c07_on: std::sync::atomic::AtomicBool::new(false),
        ready: (0..64 * 4).map(|_| std::sync::atomic::AtomicU8::new(0)).collect(),
        c07_calls_checked: AtomicU64::new(0),
        c07_pendings: AtomicU64::new(0),
        c07_errs: AtomicU64::new(0),
        c07_errs_left: AtomicUsize::new(0),
        c07_bad: Mutex::new(None),
    });
    let mut lst = Vec::new();
    let mut addrs = Vec::new();
    for _ in 0..scn.listeners {
        let l = std::net::TcpListener::bind("127.0.0.1:0").map_err(|e| ("harness".to_string(), e.to_string()))?;
        addrs.push(l.local_addr().unwrap());
        lst.push(l);
    }
    let (htx, hrx) = mpsc::channel();
    let (workers, limit, actix) = (scn.workers, scn.limit, scn.actix);
    let obs2 = obs.clone();
    let server_thread = thread::spawn(move || {
        let body = async move {
            let mut b = Server::build().workers(workers).max_concurrent_connections(limit).shutdown_timeout(1).disable_signals();
            for (i, l) in lst.into_iter().enumerate() {
                let f = Fac { listener: i as u64, obs: obs2.clone() };
                b = b.listen(["web", "admin", "zeta"].get(i).map(|s| s.to_string()).unwrap_or_else(|| format!("l{i}")), l, move || f.clone()).unwrap();
            }
            let srv = b.run();
            let _ = htx.send(srv.handle());
            let _ = srv.await;
        };
        if actix {
            actix_rt::System::new().block_on(body);
        } else {
            tokio::runtime::Builder::new_current_thread().enable_all().build().unwrap().block_on(body);
        }
    });
    let handle = hrx.recv_timeout(Duration::from_secs(60)).map_err(|_| ("harness".to_string(), "server did not start".to_string()))?;
    let next_cid = Arc::new(AtomicUsize::new(1));
    let conn_listener: Arc<Vec<AtomicU64>> = Arc::new((0..total).map(|_| AtomicU64::new(0)).collect());

    // ---- C04: with every worker idle, `workers` connections made one after the other land on distinct workers
    if prop == "C04" {
        let mut keep = Vec::new();
        let mut slots = Vec::new();
        for _ in 0..scn.workers {
            let cid = next_cid.fetch_add(1, Relaxed);
            let l = cid % addrs.len();
            let mut s = StdTcp::connect_timeout(&addrs[l], Duration::from_secs(5)).map_err(|e| ("harness".to_string(), e.to_string()))?;
            conn_listener[cid].store(l as u64 + 1, Relaxed);
            let _ = s.write_all(&hdr_for(cid, b'H'));
            if !acked_within(&mut s, Duration::from_secs(30)) {
                return Err(("C04:tsan-workload:idle-server-does-not-serve".into(), format!("connection {cid} to an idle server was not acknowledged within 30 s")));
            }
            slots.push(obs.slot_of[cid].load(Relaxed));
            keep.push(s);
        }
        let mut d = slots.clone();
        d.sort();
        d.dedup();
        if d.len() != slots.len() {
            return Err((
                "C04:tsan-workload:round-robin-window-repeats-worker".into(),
                format!("{} connections made one at a time to {} idle workers (limit {}) were served on worker thread slots {:?}", slots.len(), scn.workers, scn.limit, slots),
            ));
        }
        extra.rr_windows += 1;
        drop(keep);
        thread::sleep(Duration::from_millis(20));
    }

    // ---- C05: nothing is served while paused, everything is once resumed
    if prop == "C05" {
        if block_on_timeout(handle.pause(), Duration::from_secs(20)).is_none() {
            return Err(("C05:tsan-workload:pause-never-resolves".into(), "pause() did not resolve within 20 s".into()));
        }
        // the pause future resolves when the command was handed to the accept thread; give it ample time to act
        thread::sleep(Duration::from_millis(400));
        let mut probes = Vec::new();
        for l in 0..addrs.len() {
            let cid = next_cid.fetch_add(1, Relaxed);
            let mut s = StdTcp::connect_timeout(&addrs[l], Duration::from_secs(5)).map_err(|e| ("harness".to_string(), format!("connect while paused: {e}")))?;
            conn_listener[cid].store(l as u64 + 1, Relaxed);
            let _ = s.write_all(&hdr_for(cid, b'F'));
            probes.push((cid, s));
        }
        for (cid, s) in probes.iter_mut() {
            if acked_within(s, Duration::from_millis(60)) {
                return Err(("C05:tsan-workload:served-while-paused".into(), format!("connection {cid} made 400 ms after pause() resolved was served before resume()")));
            }
        }
        if block_on_timeout(handle.resume(), Duration::from_secs(20)).is_none() {
            return Err(("C05:tsan-workload:resume-never-resolves".into(), "resume() did not resolve within 20 s".into()));
        }
        for (cid, s) in probes.iter_mut() {
            if !acked_within(s, Duration::from_secs(30)) {
                return Err(("C05:tsan-workload:not-served-after-resume".into(), format!("connection {cid} made while paused was not served within 30 s after resume()")));
            }
            extra.paused_probes += 1;
        }
    }

    if prop == "C07" {
        obs.c07_errs_left.store(1 + (seed % 3) as usize, Relaxed);
        obs.c07_on.store(true, Relaxed);
    }
    obs.panics_left.store(scn.panics, Relaxed);

    // ---- clients
    let mut ths = Vec::new();
    for t in 0..scn.threads {
        let (addrs, next_cid, conn_listener) = (addrs.clone(), next_cid.clone(), conn_listener.clone());
        let n = scn.per_thread;
        let keep_pending = prop == "C03";
        let mut r = Rng::new(seed ^ (t as u64 + 1) * 7919);
        ths.push(thread::spawn(move || {
            let mut held: Vec<StdTcp> = Vec::new();
            let mut pending: Vec<(usize, StdTcp)> = Vec::new();
            let mut acked = 0u64;
            for _ in 0..n {
                let l = r.usize(addrs.len());
                let cid = next_cid.fetch_add(1, Relaxed);
                if let Ok(mut s) = StdTcp::connect_timeout(&addrs[l], Duration::from_secs(5)) {
                    conn_listener[cid].store(l as u64 + 1, Relaxed);
                    let mut hdr = [0u8; 9];
                    hdr[..8].copy_from_slice(&(cid as u64).to_le_bytes());
                    hdr[8] = if r.chance(1, 2) { b'H' } else { b'F' };
                    let _ = s.write_all(&hdr);
                    let _ = s.set_read_timeout(Some(Duration::from_millis(r.below(30) + 1)));
                    let mut b = [0u8; 1];
                    if let Ok(1) = s.read(&mut b) {
                        acked += 1;
                    } else if keep_pending {
                        // not served yet (workers saturated): stays open, must be served once capacity is released
                        pending.push((cid, s));
                        continue;
                    }
                    if r.chance(2, 3) {
                        held.push(s);
                    }
                    if held.len() > 3 {
                        let k = r.usize(held.len());
                        held.swap_remove(k);
                    }
                }
            }
            (held, acked, pending)
        }));
    }
    if scn.pause_resume {
        thread::sleep(Duration::from_millis(2));
        let _ = block_on_timeout(handle.pause(), Duration::from_secs(20));
        thread::sleep(Duration::from_millis(3));
        let _ = block_on_timeout(handle.resume(), Duration::from_secs(20));
    }
    let mut held_all = Vec::new();
    let mut pending_all: Vec<(usize, StdTcp)> = Vec::new();
    let mut acked = 0;
    for t in ths {
        if let Ok((h, a, p)) = t.join() {
            held_all.extend(h);
            pending_all.extend(p);
            acked += a;
        }
    }
    // ---- C03: release everything that is held; every connection still waiting must now be served
    if prop == "C03" {
        held_all.clear();
        // they are served in backlog order, not in this list's order, and an 'H' one holds its slot until it is closed:
        // poll them all, close each as soon as it was acknowledged; the 30 s window restarts whenever one makes progress
        let mut t0 = Instant::now();
        while !pending_all.is_empty() && t0.elapsed() < Duration::from_secs(30) {
            let mut progressed = 0;
            pending_all.retain_mut(|(_, s)| {
                if acked_within(s, Duration::from_millis(5)) {
                    let _ = s.shutdown(std::net::Shutdown::Both);
                    progressed += 1;
                    false
                } else {
                    true
                }
            });
            if progressed > 0 {
                extra.pending_drained += progressed;
                t0 = Instant::now();
            }
        }
        if let Some((cid, _)) = pending_all.first() {
            return Err((
                "C03:tsan-workload:pending-connection-never-served".into(),
                format!("connection {cid} (and {} more) was waiting while the workers were saturated; every served connection has been closed since and for 30 s none of the waiting ones was served (calls in progress per thread slot: {:?})", pending_all.len() - 1, obs.in_flight.iter().take(6).map(|x| x.load(Relaxed)).collect::<Vec<_>>()),
            ));
        }
        pending_all.clear();
    }
    drop(pending_all);
    // after a worker death the server must keep serving: one more client must be acknowledged
    // (held connections may occupy every slot: release them first)
    if scn.panics > 0 {
        held_all.clear();
        let t0 = Instant::now();
        let mut ok = false;
        while t0.elapsed() < Duration::from_secs(30) && !ok {
            if let Ok(mut s) = StdTcp::connect_timeout(&addrs[0], Duration::from_secs(5)) {
                let cid = next_cid.fetch_add(1, Relaxed);
                let mut hdr = [0u8; 9];
                hdr[..8].copy_from_slice(&(cid as u64).to_le_bytes());
                hdr[8] = b'F';
                let _ = s.write_all(&hdr);
                let _ = s.set_read_timeout(Some(Duration::from_millis(500)));
                let mut b = [0u8; 1];
                if let Ok(1) = s.read(&mut b) {
                    ok = true;
                }
            }
        }
        if !ok {
            return Err((
                "C08:tsan-workload:service-not-resumed".into(),
                format!(
                    "no client was served within 30 s after scripted worker deaths (service instances created: {}, panics left: {}, calls in progress per thread slot: {:?})",
                    obs.factory_news.load(Relaxed),
                    obs.panics_left.load(Relaxed),
                    obs.in_flight.iter().take(6).map(|x| x.load(Relaxed)).collect::<Vec<_>>()
                ),
            ));
        }
    }
    // the concurrency bound is judged on what happened before the stop was issued: once workers exit, the accept thread
    // (until it has processed its own stop message) sees their closed channels as faults and force-sends to whichever
    // worker is left, saturated or not, exactly as after a fault, which C02 excludes
    let max_before_stop = obs.max_in_flight.load(Relaxed);
    let stopped = block_on_timeout(handle.stop(scn.graceful), Duration::from_secs(60)).is_some();
    drop(held_all);
    if !stopped {
        return Err(("C06:tsan-workload:stop-never-resolves".into(), "stop() did not resolve within 60 s under the sanitizer".into()));
    }
    let _ = server_thread.join();

    // ---- boundary oracles
    let mut served = 0u64;
    for cid in 1..total {
        let v = obs.served[cid].load(Relaxed);
        if v == 0 {
            continue;
        }
        served += 1;
        if v & (1 << 63) != 0 {
            return Err(("C01:tsan-workload:connection-served-twice".into(), format!("connection {cid} was identified by two service calls")));
        }
        let want = conn_listener[cid].load(Relaxed);
        if want != 0 && v != want {
            return Err(("C01:tsan-workload:wrong-listener-service".into(), format!("connection {cid} made to listener {} was served by listener {}'s service", want - 1, v - 1)));
        }
    }
    if let Some(bad) = obs.c07_bad.lock().unwrap().take() {
        return Err(("C07:tsan-workload:called-without-fresh-readiness".into(), bad));
    }
    extra.c07_calls += obs.c07_calls_checked.load(Relaxed);
    extra.c07_pendings += obs.c07_pendings.load(Relaxed);
    extra.c07_errs += obs.c07_errs.load(Relaxed);
    let max = max_before_stop;
    #[cfg(actix_net_verif)]
    if scn.panics == 0 && max > scn.limit {
        // debugging aid (hooks build of this binary only): dump the hook log of the failing scenario
        let log = actix_server::verif::log_since(0);
        let txt: Vec<String> = log.iter().map(|r| format!("#{} t={}us th={:x} {:?}", r.seq, r.t_us, r.thread & 0xffff, r.ev)).collect();
        let _ = std::fs::write(format!("/tmp/plain_c02_{seed}.log"), txt.join("\n"));
    }
    if scn.panics == 0 && max > scn.limit {
        return Err(("C02:tsan-workload:service-concurrency-beyond-limit".into(), format!("{max} service calls in progress on one worker thread, limit {}", scn.limit)));
    }
    Ok((served, acked))
}

fn main() {
    vh_core::install_quiet_panic_hook();
    let args = Args::parse();
    if args.prop == "__warm__" {
        return;
    }
    let mut rep = Report::new(&args);
    let n = args.extra_u64("n", 60);
    let mut rng = Rng::new(args.seed ^ 0x7541).fork(args.shard);
    let (mut served, mut acked, mut with_panics) = (0u64, 0u64, 0u64);
    let mut extra = Extra::default();
    let fixed = args.extra.get("case_seed").and_then(|v| v.parse::<u64>().ok());
    for i in 0..n {
        let mut seed = rng.next_u64();
        if !args.mine(i) {
            continue;
        }
        if let Some(f) = fixed {
            seed = f;
        }
        let mut r = Rng::new(seed);
        let scn = Scn {
            workers: 1 + r.usize(3),
            limit: 1 + r.usize(3),
            listeners: 1 + r.usize(2),
            actix: r.chance(2, 3),
            threads: 2 + r.usize(5),
            per_thread: 4 + r.usize(10),
            pause_resume: r.chance(1, 3),
            graceful: r.chance(1, 2),
            // faults only for the fault property: they legitimately break the C02 bound
            panics: if args.prop == "C08" && r.chance(2, 3) { 1 + r.usize(2) } else { 0 },
        };
        let shape = format!("w{} l{} n{} actix{} t{}x{} pr{} g{} p{}", scn.workers, scn.limit, scn.listeners, scn.actix as u8, scn.threads, scn.per_thread, scn.pause_resume as u8, scn.graceful as u8, scn.panics);
        rep.evaluations += 1;
        if scn.panics > 0 {
            with_panics += 1;
        }
        match run_scn(&scn, seed, &args.prop, &mut extra) {
            Ok((s, a)) => {
                served += s;
                acked += a;
                rep.nontrivial(fnv_str(&shape));
            }
            Err((sig, desc)) if sig == "harness" => rep.inconclusive(&desc),
            Err((sig, desc)) => {
                if sig.starts_with(&args.prop) {
                    rep.violation(sig, format!("{desc} [{shape}]"), json!({"prop": args.prop, "case_seed": seed, "shape": shape}));
                } else {
                    rep.count("other_property_violations_seen");
                    rep.note(format!("violation of another property seen by this workload (reported by that property's own layer): {sig}: {desc} [{shape}] case_seed={seed}"));
                }
            }
        }
        if i < 3 * args.nshards {
            rep.sample(|| json!({"shape": shape}));
        }
    }
    rep.rule = "sanitizer workload (no hooks): real actix-server, workers 1..3 x limit 1..3 x 1..2 TCP listeners x {Actix, Tokio}, 2..6 client threads x 4..13 connections (hold / finish, random releases), optional pause+resume, graceful or forced stop, for C08 also 1..2 scripted call panics; per property in addition: C03 connections left waiting while saturated are kept open and must be served after everything else was released, C04 `workers` one-at-a-time connections to an idle server land on distinct worker threads, \
                C05 connections made 400 ms after pause() resolved are not served until resume() and are served after it, C07 services answer Pending (timer wake-up) on every 7th and Err on some readiness polls and every call must find every service of its worker thread Ready since the previous call; \
                boundary oracles with relaxed atomics only (identified at most once and by the right listener's service; per-thread call concurrency <= limit without faults; stop resolves; service resumes after worker deaths). The deciding observer of this layer is the sanitizer itself (any report fails the check)."
        .into();
    rep.add("obs_tsan_workload_connections_served", served);
    rep.add("obs_tsan_workload_clients_acked", acked);
    rep.add("obs_tsan_workload_fault_scenarios", with_panics);
    rep.add("obs_tsan_workload_rr_windows_distinct", extra.rr_windows);
    rep.add("obs_tsan_workload_paused_probes_served_after_resume", extra.paused_probes);
    rep.add("obs_tsan_workload_pending_served_after_release", extra.pending_drained);
    rep.add("obs_tsan_workload_calls_with_fresh_readiness", extra.c07_calls);
    rep.add("obs_tsan_workload_readiness_pendings", extra.c07_pendings);
    rep.add("obs_tsan_workload_readiness_errors", extra.c07_errs);
    std::process::exit(rep.finish(&args));
}
