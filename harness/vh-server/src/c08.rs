//! C08 — a faulted worker is detected, bypassed and replaced; its connection is re-routed.

use std::{
    collections::{BTreeMap, BTreeSet},
    thread,
    time::{Duration, Instant},
};

use actix_server::verif::{self, Ev, Failpoint, Rec};
use vh_core::{json, Rng, Value};

use crate::{
    engine::{self, Ack, Client, LKind, ReadyStep, RtKind, Running, ServerCfg, Waited},
    monitor::{self, fail, Fail},
};

#[derive(Clone, Copy, Debug, PartialEq, Eq)]
pub enum Fault {
    /// the service's `call` panics on the next connection the victim takes
    CallPanic,
    /// `poll_ready` panics, woken through the stored waker (no connection consumed)
    ReadyPanic,
    /// readiness error whose re-creation fails (the worker panics while restarting the service)
    RestartFail,
}

#[derive(Clone, Copy, Debug, PartialEq, Eq)]
pub enum CloseAt {
    BeforeFault,
    AfterFault,
    AfterDetection,
    Never,
}

#[derive(Clone, Debug)]
pub struct Scn {
    pub seed: u64,
    pub workers: usize,
    pub limit: usize,
    pub rt: RtKind,
    /// (worker idx, fault)
    pub victims: Vec<(usize, Fault)>,
    /// connections held per worker before the fault
    pub load: Vec<usize>,
    pub close_victim_conns: CloseAt,
    pub replacement_delay_ms: u64,
    /// delay injected between a guard's decrement and its notification (late availability notification)
    pub notify_delay_ms: u64,
    pub probes_after: usize,
    /// client threads keep connecting while the fault happens (connections can enter a dying worker's queue)
    pub hammer: bool,
}

impl Scn {
    pub fn from_seed(seed: u64) -> Scn {
        if let Some(s) = regression(seed) {
            return s;
        }
        let mut r = Rng::new(seed);
        let workers = 1 + r.usize(3);
        let limit = 1 + r.usize(3);
        let two = workers >= 2 && r.chance(1, 4);
        let faults = [Fault::CallPanic, Fault::ReadyPanic, Fault::ReadyPanic, Fault::RestartFail];
        let mut idxs: Vec<usize> = (0..workers).collect();
        r.shuffle(&mut idxs);
        let mut victims = vec![(idxs[0], *r.pick(&faults))];
        if two {
            victims.push((idxs[1], *r.pick(&faults)));
        }
        let load: Vec<usize> = (0..workers)
            .map(|_| match r.usize(4) {
                0 => 0,
                1 => limit,
                _ => r.usize(limit + 1),
            })
            .collect();
        Scn {
            seed,
            workers,
            limit,
            rt: if r.chance(1, 3) { RtKind::Tokio } else { RtKind::Actix },
            victims,
            load,
            close_victim_conns: *r.pick(&[CloseAt::BeforeFault, CloseAt::AfterFault, CloseAt::AfterDetection, CloseAt::Never, CloseAt::Never]),
            replacement_delay_ms: *r.pick(&[0, 0, 300, 500]),
            notify_delay_ms: *r.pick(&[0, 0, 150, 400]),
            probes_after: 1 + r.usize(4),
            hammer: r.chance(1, 3),
        }
    }
    pub fn shape(&self) -> String {
        format!(
            "w{} l{} {:?} victims{:?} load{:?} close{:?} repl{}ms notify{}ms probes{} hammer{}",
            self.workers, self.limit, self.rt, self.victims, self.load, self.close_victim_conns, self.replacement_delay_ms, self.notify_delay_ms, self.probes_after, self.hammer as u8
        )
    }
    pub fn to_json(&self) -> Value {
        json!({"case_seed": self.seed, "shape": self.shape()})
    }
}

/// Fixed regression corpus (seeds 0..REGRESSION): double faults with saturated victims, late notifications
/// and slow replacements - the histories behind the stale-availability defect.
pub const REGRESSION: u64 = 24;
fn regression(i: u64) -> Option<Scn> {
    if i >= REGRESSION {
        return None;
    }
    let workers = 2 + (i % 2) as usize;
    let limit = 1 + ((i / 2) % 3) as usize;
    let mut load = vec![limit; workers];
    // first victim has room (so that a send to it is attempted), second victim is saturated
    load[0] = limit - 1;
    let close = [CloseAt::Never, CloseAt::AfterDetection, CloseAt::AfterFault][(i / 6 % 3) as usize];
    Some(Scn {
        seed: i,
        workers,
        limit,
        rt: if i % 5 == 0 { RtKind::Tokio } else { RtKind::Actix },
        victims: vec![(0, Fault::ReadyPanic), (1, Fault::ReadyPanic)],
        load,
        close_victim_conns: close,
        replacement_delay_ms: [500, 300, 700][(i % 3) as usize],
        notify_delay_ms: [400, 250, 0][(i / 12 % 3) as usize],
        probes_after: 3,
        hammer: false,
    })
}

#[derive(Default, Clone)]
pub struct Seen {
    pub faults_injected: u64,
    pub faults_detected: u64,
    pub reroutes_checked: u64,
    pub dropped_no_workers: u64,
    pub replacements_adopted: u64,
    pub replacement_received_connection: u64,
    pub late_notifications: u64,
    pub notifications_for_removed_handle: u64,
    pub double_faults: u64,
    pub saturated_victims: u64,
    pub single_worker_recoveries: u64,
    pub lost_to_fault: u64,
    pub quiescent_points: u64,
    pub stops_completed: u64,
    pub undetected_fault_scenarios: u64,
    pub dead_worker_states: u64,
    pub hammer_scenarios: u64,
    pub pending_not_in_accept_queue: u64,
}

pub enum Outcome {
    Held,
    Violated(Vec<Fail>),
    Inconclusive(String),
}

fn worker_instances(log: &[Rec]) -> BTreeMap<usize, u64> {
    // worker idx -> instance that served a connection dispatched to it (Dispatch{fd,worker} ... call(instance,_,fd))
    let mut fd_worker: BTreeMap<i32, usize> = BTreeMap::new();
    let mut m = BTreeMap::new();
    for r in log {
        match &r.ev {
            Ev::Dispatch { fd, worker, .. } => {
                fd_worker.insert(*fd, *worker);
            }
            Ev::User { kind: "call", a, c, .. } => {
                if let Some(w) = fd_worker.get(&(*c as i32)) {
                    m.insert(*w, *a);
                }
            }
            _ => {}
        }
    }
    m
}

fn cid_worker(log: &[Rec], cid: u64) -> Option<usize> {
    let inst = log.iter().find_map(|r| match &r.ev {
        Ev::User { kind: "identified", a, b, .. } if *a == cid => Some(*b),
        _ => None,
    })?;
    // latest mapping wins for replaced workers: find the worker whose dispatch fd matched this instance's call
    let mut fd_worker: BTreeMap<i32, usize> = BTreeMap::new();
    let mut res = None;
    for r in log {
        match &r.ev {
            Ev::Dispatch { fd, worker, .. } => {
                fd_worker.insert(*fd, *worker);
            }
            Ev::User { kind: "call", a, c, .. } if *a == inst => {
                if let Some(w) = fd_worker.get(&(*c as i32)) {
                    res = Some(*w);
                }
            }
            _ => {}
        }
    }
    res
}

fn connect_wait(run: &Running, mode: u8, wait: Duration) -> Option<(Client, Ack)> {
    let mut c = Client::connect(&run.addrs[0], 0, mode).ok()?;
    let t0 = Instant::now();
    let mut ack = Ack::NotYet;
    while t0.elapsed() < wait {
        ack = c.poll_ack(Duration::from_millis(10));
        if ack != Ack::NotYet {
            break;
        }
    }
    Some((c, ack))
}

pub fn run_scenario(scn: &Scn, seen: &mut Seen) -> Outcome {
    let baseline_threads = engine::thread_count();
    verif::clear_injected_accept_errors();
    verif::set_abort_spin(false);
    let overruns_before = verif::overruns();
    verif::set_failpoints(&[], 0);
    verif::start_recording();
    let cfg = ServerCfg { workers: scn.workers, limit: scn.limit, listeners: vec![LKind::Tcp], rt: scn.rt, shutdown_timeout: 1, backlog: 128 };
    let mut run = match engine::start(&cfg, |ctls| ctls[0].inner.lock().unwrap().keep_wakers = true) {
        Ok(r) => r,
        Err(e) => return Outcome::Inconclusive(e),
    };
    let mut fails: Vec<Fail> = Vec::new();
    let mut held: Vec<(Client, usize)> = Vec::new(); // (client, worker)
    let mut others: Vec<Client> = Vec::new();
    let mut inconclusive: Option<String> = None;
    if scn.victims.len() > 1 {
        seen.double_faults += 1;
    }
    if scn.hammer {
        seen.hammer_scenarios += 1;
    }

    let body = (|| -> Result<(), String> {
        // ---- 1. warm-up: one finished connection per worker gives the idx -> instance map
        for _ in 0..scn.workers {
            let (c, ack) = connect_wait(&run, b'F', Duration::from_secs(5)).ok_or("connect failed")?;
            if ack != Ack::Served {
                return Err("warm-up client not served".into());
            }
            c.close();
        }
        run.barrier(false).map_err(|_| "warm-up barrier".to_string())?;
        let inst = worker_instances(&verif::log_since(0));
        if inst.len() != scn.workers {
            return Err(format!("could not map workers to instances: {inst:?}"));
        }

        // ---- 2. load
        let max_load = *scn.load.iter().max().unwrap_or(&0);
        for _ in 0..max_load * scn.workers {
            let (c, ack) = connect_wait(&run, b'H', Duration::from_secs(5)).ok_or("connect failed")?;
            if ack != Ack::Served {
                return Err("load client not served".into());
            }
            let w = cid_worker(&verif::log_since(0), c.cid).ok_or("cannot tell which worker serves a client")?;
            held.push((c, w));
        }
        // trim to the target load per worker
        let mut count: BTreeMap<usize, usize> = BTreeMap::new();
        let mut keep: Vec<(Client, usize)> = Vec::new();
        for (c, w) in held.drain(..) {
            let n = count.entry(w).or_insert(0);
            if *n < scn.load[w] {
                *n += 1;
                keep.push((c, w));
            } else {
                let cid = c.cid;
                c.close();
                let _ = engine::wait_log(|l| l.iter().any(|r| matches!(&r.ev, Ev::User { kind: "end", a, .. } if *a == cid)), engine::WATCHDOG);
            }
        }
        held = keep;
        run.barrier(false).map_err(|_| "load barrier".to_string())?;
        for (v, _) in &scn.victims {
            if scn.load[*v] == scn.limit {
                seen.saturated_victims += 1;
            }
        }

        // ---- 3. timing knobs
        if scn.notify_delay_ms > 0 {
            verif::set_failpoints(
                &[("worker:dec-wake", Failpoint { per_mille: 1000, min_us: scn.notify_delay_ms * 1000, max_us: scn.notify_delay_ms * 1000 + 20_000 })],
                scn.seed,
            );
        }
        {
            let mut g = run.ctls[0].inner.lock().unwrap();
            for _ in 0..4 {
                g.factory_delay_ms.push_back(scn.replacement_delay_ms);
            }
        }
        let close_victims = |held: &mut Vec<(Client, usize)>| {
            let vs: Vec<usize> = scn.victims.iter().map(|v| v.0).collect();
            let mut rest = Vec::new();
            for (c, w) in held.drain(..) {
                if vs.contains(&w) {
                    c.close();
                } else {
                    rest.push((c, w));
                }
            }
            *held = rest;
        };
        if scn.close_victim_conns == CloseAt::BeforeFault {
            close_victims(&mut held);
            thread::sleep(Duration::from_millis(5));
        }

        // ---- 4. faults (optionally while client threads keep connecting)
        let hammer_stop = std::sync::Arc::new(std::sync::atomic::AtomicBool::new(false));
        let mut hammers = Vec::new();
        if scn.hammer {
            for t in 0..4u64 {
                let addr = run.addrs[0].clone();
                let stop = hammer_stop.clone();
                let mut r = Rng::new(scn.seed ^ (t + 1) * 131);
                hammers.push(thread::spawn(move || {
                    let mut v = Vec::new();
                    let t0 = Instant::now();
                    while !stop.load(std::sync::atomic::Ordering::Relaxed) && t0.elapsed() < Duration::from_millis(400) {
                        if let Ok(c) = Client::connect(&addr, 0, b'F') {
                            v.push(c);
                        }
                        if r.chance(1, 3) {
                            thread::sleep(Duration::from_micros(r.below(300)));
                        }
                    }
                    v
                }));
            }
            thread::sleep(Duration::from_millis(2));
        }
        uev_mark("fault_begin");
        for (v, f) in &scn.victims {
            let i = inst[v];
            seen.faults_injected += 1;
            match f {
                Fault::CallPanic => {
                    run.ctls[0].inner.lock().unwrap().panic_on_call.push(i);
                }
                Fault::ReadyPanic => {
                    run.ctls[0].set_script(i, &[ReadyStep::Panic]);
                }
                Fault::RestartFail => {
                    {
                        // the in-place restart of this instance's service runs on its worker's thread
                        let mut g = run.ctls[0].inner.lock().unwrap();
                        let th = g.instances.get(&i).map(|x| x.thread).ok_or("victim instance unknown")?;
                        g.factory_fail_on_thread.push(th);
                    }
                    run.ctls[0].set_script(i, &[ReadyStep::Err]);
                }
            }
        }
        // give panics woken through wakers time to unwind (a dying worker needs ~100 ms in debug builds)
        thread::sleep(Duration::from_millis(30));
        hammer_stop.store(true, std::sync::atomic::Ordering::Relaxed);
        for h in hammers {
            if let Ok(v) = h.join() {
                others.extend(v);
            }
        }
        if scn.close_victim_conns == CloseAt::AfterFault {
            close_victims(&mut held);
        }

        // ---- 5. probes: new clients make the accept thread discover the fault
        let deadline = Instant::now() + Duration::from_secs(4);
        let mut detected: BTreeSet<usize> = BTreeSet::new();
        let mut n_probes = 0;
        while Instant::now() < deadline && n_probes < 6 + 2 * scn.workers {
            n_probes += 1;
            if let Some((c, _ack)) = connect_wait(&run, b'F', Duration::from_millis(150)) {
                others.push(c);
            }
            let log = verif::log_since(0);
            for r in &log {
                if let Ev::DispatchFailed { worker, .. } = &r.ev {
                    detected.insert(*worker);
                }
            }
            if verif::overruns() > overruns_before {
                break;
            }
            if detected.len() == scn.victims.len() {
                break;
            }
            thread::sleep(Duration::from_millis(40));
        }
        seen.faults_detected += detected.len() as u64;
        if scn.close_victim_conns == CloseAt::AfterDetection {
            close_victims(&mut held);
        }

        // ---- 6. wait for the replacements of detected victims, while clients keep arriving
        // (the window between a victim's removal, its late notifications and the replacement's adoption)
        if verif::overruns() == overruns_before && !detected.is_empty() {
            let t0 = Instant::now();
            let adopted = |v: usize| {
                verif::with_log(|l| {
                    let mut failed = false;
                    for r in l {
                        match &r.ev {
                            Ev::DispatchFailed { worker, .. } if *worker == v => failed = true,
                            Ev::Interest { kind: "worker", idx } if failed && *idx == v => return true,
                            _ => {}
                        }
                    }
                    false
                })
            };
            loop {
                if detected.iter().all(|v| adopted(*v)) {
                    seen.replacements_adopted += detected.len() as u64;
                    break;
                }
                if verif::overruns() > overruns_before {
                    break;
                }
                if t0.elapsed() > Duration::from_secs(10) {
                    match vh_core::proc::quiescent(Duration::from_millis(1500)) {
                        Some(true) => {
                            for v in detected.iter().filter(|v| !adopted(**v)) {
                                fails.push(fail(
                                    "C08:replacement-never-adopted",
                                    format!("worker {v} was detected as faulted but the accept thread never received a replacement handle; process quiescent; last events {:?}", monitor::tail(&verif::log_since(0), 12)),
                                ));
                            }
                            break;
                        }
                        _ => return Err("replacement watchdog".into()),
                    }
                }
                if let Some((c, _)) = connect_wait(&run, b'F', Duration::from_millis(25)) {
                    others.push(c);
                }
                thread::sleep(Duration::from_millis(15));
            }
        }

        // ---- 7. after the notification delay has passed, the system must be healthy: feed clients
        thread::sleep(Duration::from_millis(scn.notify_delay_ms + 50));
        verif::set_failpoints(&[], 0);
        if fails.is_empty() && verif::overruns() == overruns_before {
            for _ in 0..scn.probes_after + scn.workers + 1 {
                if let Some((c, _)) = connect_wait(&run, b'F', Duration::from_millis(300)) {
                    others.push(c);
                }
                if verif::overruns() > overruns_before {
                    break;
                }
            }
        }
        Ok(())
    })();
    if let Err(e) = body {
        inconclusive = Some(e);
    }

    // ---- quiescent point (if the accept thread is still sane)
    let spinning = verif::overruns() > overruns_before;
    if !spinning && inconclusive.is_none() && fails.is_empty() {
        // with faults in the history the full barrier's bookkeeping (every dispatch reaches a call, every end is
        // followed by a guard drop) does not hold; two command pings 60 ms apart bracket any release still in flight
        let first = run.accept_barrier(false);
        thread::sleep(Duration::from_millis(60));
        match first.and_then(|_| run.accept_barrier(false)) {
            Ok(snap) => {
                seen.quiescent_points += 1;
                let log = verif::log_since(0);
                let (c, _) = monitor::shadow(&log, scn.limit, true);
                let mut pending = 0i64;
                for (l, n) in &c.connects_ok {
                    pending += *n as i64 - *c.accepted.get(l).unwrap_or(&0) as i64;
                }
                // capacity of live handles, counted from the real counters of the snapshot (faults make the shadow inexact)
                let spare: i64 = snap.counters.iter().map(|(_, total)| (scn.limit as i64 - *total as i64).max(0)).sum();
                if pending > 0 && spare > 0 {
                    // "connected" for the client is not "in the accept queue" for the server: when client threads have
                    // overrun the listen backlog the kernel keeps a connection half-open (final ACK dropped, SYN-ACK
                    // retransmitted seconds later). The rule is about connections the server can see: the kernel's
                    // accept queue must be non-empty, and stay so across one more barrier without being drained.
                    let queued = |run: &engine::Running| match &run.addrs[0] {
                        engine::Addr::Tcp(a) => monitor::tcp_accept_queue(a.port()).unwrap_or(0),
                        _ => 1,
                    };
                    let q1 = queued(&run);
                    let mut confirmed = None;
                    if q1 > 0 {
                        if let Ok(snap2) = run.accept_barrier(false) {
                            let spare2: i64 = snap2.counters.iter().map(|(_, total)| (scn.limit as i64 - *total as i64).max(0)).sum();
                            let q2 = queued(&run);
                            if q2 > 0 && spare2 > 0 {
                                confirmed = Some((snap2, spare2, q2));
                            }
                        }
                    } else {
                        seen.pending_not_in_accept_queue += 1;
                    }
                    if let Some((snap2, spare2, q2)) = confirmed {
                        fails.push(fail(
                            "C08:service-not-resumed",
                            format!(
                                "quiescent point after the fault: {q2} connection(s) wait in the listener's accept queue ({pending} by the clients' count) while live handles {:?} have {spare2} free slot(s); avail bits {:?}; last events {:?}",
                                snap2.counters,
                                snap2.avail.iter().take(scn.workers).collect::<Vec<_>>(),
                                monitor::tail(&verif::log_since(0), 12)
                            ),
                        ));
                    }
                }
                // a worker that has died must be discovered (and replaced) as long as clients are waiting: if it is still
                // in the handle list, believed saturated, nothing will ever be sent to it and nobody will notice
                let mut died: BTreeSet<usize> = BTreeSet::new();
                for r in &log {
                    match &r.ev {
                        Ev::WorkerDrop { worker } => {
                            died.insert(*worker);
                        }
                        Ev::Interest { kind: "worker", idx } => {
                            died.remove(idx);
                        }
                        _ => {}
                    }
                }
                let undiscovered: Vec<usize> = died.iter().filter(|w| snap.handles.contains(w)).copied().collect();
                if pending > 0 && spare == 0 && !undiscovered.is_empty() {
                    // confirm that nothing moves any more
                    let before = c.dispatch_total;
                    thread::sleep(Duration::from_millis(100));
                    let again = run.accept_barrier(false);
                    let (c2, _) = monitor::shadow(&verif::log_since(0), scn.limit, true);
                    if again.is_ok() && c2.dispatch_total == before {
                        seen.dead_worker_states += 1;
                        fails.push(fail(
                            "C08:dead-worker-never-discovered",
                            format!(
                                "worker(s) {undiscovered:?} have died but are still in the accept thread's handle list, their counters {:?} make them look saturated (limit {}), {pending} connection(s) wait in the backlog and nothing is dispatched any more: the death is never discovered and no replacement is started; last events {:?}",
                                snap.counters,
                                scn.limit,
                                monitor::tail(&log, 14)
                            ),
                        ));
                    }
                }
                // availability bits must only be set for handles that exist
                let live: BTreeSet<usize> = snap.handles.iter().copied().collect();
                for (i, b) in snap.avail.iter().enumerate() {
                    if *b && !live.contains(&i) {
                        fails.push(fail(
                            "C08:availability-bit-without-handle",
                            format!("quiescent point: availability bit {i} is set but no worker handle with that index exists (handles {:?}): the next accepted connection cannot be placed", snap.handles),
                        ));
                    }
                }
            }
            Err(Waited::Stuck) => fails.push(fail(
                "C08:accept-thread-stuck",
                format!("the accept thread stopped reacting after the fault; process quiescent; last events {:?}", monitor::tail(&verif::log_since(0), 12)),
            )),
            Err(_) => {
                if verif::overruns() == overruns_before {
                    inconclusive = Some("post-fault barrier watchdog".into());
                }
            }
        }
    }
    let spinning = verif::overruns() > overruns_before;
    if spinning {
        let log = verif::log_since(0);
        let snap = log.iter().rev().find_map(|r| if let Ev::LoopIdle(s) = &r.ev { Some(s.clone()) } else { None });
        fails.push(fail(
            "C08:accept-thread-spins",
            format!(
                "Accept::accept_one exceeded 4*handles+4 iterations without placing the connection (endless loop); last idle snapshot {:?}; last events {:?}",
                snap.map(|s| format!("handles={:?} avail={:?} counters={:?}", s.handles, s.avail.iter().take(4).collect::<Vec<_>>(), s.counters)),
                monitor::tail(&log, 14)
            ),
        ));
        // let the spinning call give up so that the scenario can be torn down
        verif::set_abort_spin(true);
    }

    // ---- stop must complete
    let (resolved, _) = run.stop(false, Duration::from_secs(12));
    if !resolved {
        if vh_core::proc::quiescent(Duration::from_millis(1500)) == Some(true) || spinning {
            fails.push(fail("C08:stop-hangs-after-fault", "stop() did not resolve after the fault scenario".to_string()));
        } else if fails.is_empty() {
            inconclusive = Some("stop watchdog".into());
        }
    } else {
        seen.stops_completed += 1;
    }
    for (c, _) in held {
        c.close();
    }
    for c in others {
        c.close();
    }
    let joined = run.join(Duration::from_secs(12));
    let full_log = verif::log_since(0);
    verif::stop_recording();
    // fault oracles look at the history up to the stop command: during shutdown workers exit on purpose and the
    // accept thread may see their channels closed, which is not a fault
    let stop_at = full_log.iter().position(|r| matches!(&r.ev, Ev::User { kind: "cmd_stop", .. })).unwrap_or(full_log.len());
    let log: Vec<Rec> = full_log[..stop_at].to_vec();
    verif::set_abort_spin(false);
    verif::set_failpoints(&[], 0);
    let gone = engine::wait_threads_gone(baseline_threads, Duration::from_secs(12));

    // ---- history oracles
    if resolved && !full_log.iter().any(|r| matches!(r.ev, Ev::AcceptExit)) {
        fails.push(fail(
            "C08:accept-thread-died",
            format!("the accept thread never reported a regular exit (it panicked): last events {:?}", monitor::tail(&full_log, 12)),
        ));
    }
    let accept_thread = log.iter().find_map(|r| if let Ev::LoopIdle(_) = &r.ev { Some(r.thread) } else { None });
    // F1: the discovering connection is re-routed or dropped only when nobody is left
    for (i, r) in log.iter().enumerate() {
        if let Ev::DispatchFailed { worker, fd } = &r.ev {
            let mut outcome = "none";
            for n in &log[i + 1..] {
                if Some(n.thread) != accept_thread {
                    continue;
                }
                match &n.ev {
                    Ev::Dispatch { fd: f, .. } if f == fd => {
                        outcome = "redispatched";
                        break;
                    }
                    Ev::DroppedNoWorkers { fd: f, .. } if f == fd => {
                        outcome = "dropped";
                        seen.dropped_no_workers += 1;
                        break;
                    }
                    Ev::Accepted { fd: f, .. } if f == fd => break,
                    Ev::AcceptExit => break,
                    _ => {}
                }
            }
            seen.reroutes_checked += 1;
            if outcome == "none" && !spinning {
                fails.push(fail(
                    "C08:discovering-connection-lost",
                    format!("the connection (fd {fd}) whose dispatch discovered that worker {worker} is dead was neither re-dispatched nor dropped for lack of workers; context {:?}", monitor::around(&log, i, 4, 8)),
                ));
            }
            if outcome == "dropped" {
                // legitimate only when no handle is left: the handle set at this point is the one of the last idle
                // snapshot, minus every worker whose dispatch failed since, plus every replacement adopted since
                // (several connections can be accepted, fail and be re-routed without an idle snapshot in between)
                let snap_pos = log[..i].iter().rposition(|r| matches!(r.ev, Ev::LoopIdle(_)));
                let mut handles: BTreeSet<usize> = match snap_pos {
                    Some(p) => match &log[p].ev {
                        Ev::LoopIdle(s) => s.handles.iter().copied().collect(),
                        _ => BTreeSet::new(),
                    },
                    None => (0..scn.workers).collect(),
                };
                for r in &log[snap_pos.map(|p| p + 1).unwrap_or(0)..=i] {
                    if Some(r.thread) != accept_thread {
                        continue;
                    }
                    match &r.ev {
                        Ev::DispatchFailed { worker, .. } => {
                            handles.remove(worker);
                        }
                        Ev::Interest { kind: "worker", idx } => {
                            handles.insert(*idx);
                        }
                        _ => {}
                    }
                }
                let handles_left = handles.len();
                let failed_in_this_call = 0;
                if handles_left > failed_in_this_call {
                    fails.push(fail(
                        "C08:connection-dropped-although-workers-alive",
                        format!("fd {fd} was dropped 'no workers' although the accept thread still had handles {handles:?} whose dispatch had not failed; context {:?}", monitor::around(&log, i, 4, 8)),
                    ));
                }
            }
        }
    }
    // F2: nothing is dispatched to the dead index between its removal and the replacement's adoption
    {
        let mut dead: BTreeSet<usize> = BTreeSet::new();
        for r in &log {
            match &r.ev {
                Ev::DispatchFailed { worker, .. } => {
                    dead.insert(*worker);
                }
                Ev::Interest { kind: "worker", idx } => {
                    dead.remove(idx);
                }
                Ev::Interest { kind: "worker_available", idx } if dead.contains(idx) => {
                    seen.notifications_for_removed_handle += 1;
                }
                Ev::Dispatch { worker, fd, .. } if dead.contains(worker) => {
                    fails.push(fail(
                        "C08:dispatch-to-dead-worker",
                        format!("fd {fd} was dispatched to worker {worker} (event #{}) after its death had been detected and before a replacement was adopted", r.seq),
                    ));
                    break;
                }
                _ => {}
            }
        }
    }
    // F3: the replacement rejoins the rotation: once adopted it receives a connection
    {
        let mut adopted: BTreeMap<usize, usize> = BTreeMap::new();
        for (i, r) in log.iter().enumerate() {
            if let Ev::Interest { kind: "worker", idx } = &r.ev {
                adopted.insert(*idx, i);
            }
        }
        for (idx, pos) in adopted {
            let after: Vec<usize> = log[pos..].iter().filter_map(|r| if let Ev::Dispatch { worker, .. } = &r.ev { Some(*worker) } else { None }).collect();
            if after.len() > scn.workers + 1 {
                if after.contains(&idx) {
                    seen.replacement_received_connection += 1;
                } else if !spinning {
                    fails.push(fail(
                        "C08:replacement-not-in-rotation",
                        format!("replacement worker {idx} was adopted but none of the following {} dispatches ({after:?}) went to it", after.len()),
                    ));
                }
            }
            if scn.workers == 1 && !after.is_empty() {
                seen.single_worker_recoveries += 1;
            }
        }
        // a second factory instantiation per detected fault
        let news = log.iter().filter(|r| matches!(&r.ev, Ev::User { kind: "factory_new", .. })).count();
        let detected = log.iter().filter(|r| matches!(r.ev, Ev::DispatchFailed { .. })).map(|r| if let Ev::DispatchFailed { worker, .. } = &r.ev { *worker } else { 0 }).collect::<BTreeSet<_>>();
        let restart_faults = scn.victims.iter().filter(|v| v.1 == Fault::RestartFail).count();
        if resolved && !spinning && news < scn.workers + detected.len() {
            // every detected fault must have led to a new worker being started (its services created)
            // (RestartFail victims additionally create one failing instance)
            let _ = restart_faults;
            fails.push(fail(
                "C08:no-replacement-started",
                format!("{} worker death(s) detected but only {news} service instances were ever created ({} initial)", detected.len(), scn.workers),
            ));
        }
    }
    // served-by-live-worker rule for connections dispatched to live workers after the first detection
    {
        let mut late = 0;
        for r in &log {
            if let Ev::GuardDropEnd { notified: true, .. } = &r.ev {
                late += 1;
            }
        }
        seen.late_notifications += late;
        let lost = log.iter().filter(|r| matches!(r.ev, Ev::Dispatch { .. })).count() as i64 - log.iter().filter(|r| matches!(&r.ev, Ev::User { kind: "call", .. })).count() as i64;
        seen.lost_to_fault += lost.max(0) as u64;
    }
    if scn.victims.iter().all(|(v, _)| !log.iter().any(|r| matches!(&r.ev, Ev::DispatchFailed { worker, .. } if worker == v))) {
        seen.undetected_fault_scenarios += 1;
    }

    if !fails.is_empty() {
        return Outcome::Violated(fails);
    }
    if let Some(w) = inconclusive {
        return Outcome::Inconclusive(w);
    }
    if !joined || !gone {
        return Outcome::Inconclusive("teardown did not finish".into());
    }
    Outcome::Held
}

fn uev_mark(kind: &'static str) {
    engine::uev(kind, 0, 0, 0);
}
