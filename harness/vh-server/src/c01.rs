//! C01 — each accepted connection reaches exactly one call of its listener's service.

use std::{
    collections::{BTreeMap, HashMap, HashSet},
    sync::{
        atomic::{AtomicBool, Ordering},
        Arc, Mutex,
    },
    thread,
    time::{Duration, Instant},
};

use actix_server::verif::{self, Ev, Failpoint};
use vh_core::{json, Rng, Value};

use crate::{
    engine::{self, Ack, Client, LKind, RtKind, ServerCfg, Waited},
    monitor::{self, fail, Fail},
};

#[derive(Clone, Debug)]
pub struct Scn {
    pub seed: u64,
    pub workers: usize,
    pub limit: usize,
    pub listeners: Vec<LKind>,
    pub rt: RtKind,
    pub client_threads: usize,
    pub conns_per_thread: usize,
    pub pause_resume: bool,
    pub graceful: bool,
    pub failpoints: bool,
    /// 0..2 workers die and are replaced, one after the other, before the recorded history starts (the accept thread's
    /// handle list is then no longer in index order, the second fault hits a handle that has moved)
    pub prior_faults: usize,
    /// right before the stop every service instance of listener 0 turns not-ready (noticed by a worker when the next
    /// connection reaches it): the burst that follows is dispatched to workers that park it in their queues
    pub unready_at_stop: bool,
    /// a different, short history: every worker but one is at its limit, the last one dies taking a connection, the
    /// next connection must still reach a live worker's service
    pub fault_when_saturated: bool,
}

impl Scn {
    pub fn from_seed(seed: u64) -> Scn {
        let mut r = Rng::new(seed);
        let listeners = match r.usize(5) {
            0 => vec![LKind::Tcp],
            1 => vec![LKind::Uds],
            2 | 3 => vec![LKind::Tcp, LKind::Uds],
            _ => vec![LKind::Tcp, LKind::Tcp],
        };
        Scn {
            seed,
            workers: 1 + r.usize(3),
            limit: 1 + r.usize(3),
            listeners,
            rt: if r.chance(1, 3) { RtKind::Tokio } else { RtKind::Actix },
            client_threads: 2 + r.usize(7),
            conns_per_thread: 2 + r.usize(10),
            pause_resume: r.chance(1, 3),
            graceful: r.chance(1, 2),
            failpoints: r.chance(2, 3),
            prior_faults: if r.chance(1, 4) { 1 + r.usize(2) } else { 0 },
            unready_at_stop: r.chance(1, 4),
            fault_when_saturated: r.chance(1, 8),
        }
    }
    pub fn to_json(&self) -> Value {
        json!({"case_seed": self.seed, "shape": self.shape()})
    }
    pub fn shape(&self) -> String {
        format!(
            "w{} l{} {:?} {:?} t{}x{} pr{} g{} f{} pf{} u{} fs{}",
            self.workers, self.limit, self.listeners, self.rt, self.client_threads, self.conns_per_thread, self.pause_resume as u8, self.graceful as u8, self.failpoints as u8, self.prior_faults, self.unready_at_stop as u8, self.fault_when_saturated as u8
        )
    }
}

#[derive(Default, Clone)]
pub struct Seen {
    pub servers_built_with_bind: u64,
    pub connections: u64,
    pub served: u64,
    pub unserved_closed_at_shutdown: u64,
    pub drained_at_shutdown: u64,
    pub queued_when_stop_issued: u64,
    pub routing_checks: u64,
    pub quiescent_points: u64,
    pub fd_conservation_checks: u64,
    pub multi_listener_scenarios: u64,
    pub aborted_by_client: u64,
    pub failpoint_hits: u64,
    pub pause_resume_cycles: u64,
    pub prior_fault_preludes: u64,
    pub unready_at_stop: u64,
    pub faults_when_saturated: u64,
    pub lost_to_dying_worker: u64,
}

pub enum Outcome {
    Held,
    Violated(Vec<Fail>),
    Inconclusive(String),
}

/// Workers 2..3 with limit 1: all but one worker hold a connection; the free one dies on the next connection (its
/// service panics in `call`). The connection after that finds the dead worker, and every other worker saturated: it
/// must still be served (force-sent to a live worker, or taken by the replacement), not dropped.
fn run_fault_when_saturated(scn: &Scn, seen: &mut Seen) -> Outcome {
    let baseline_threads = engine::thread_count();
    verif::clear_injected_accept_errors();
    verif::set_abort_spin(false);
    verif::set_failpoints(&[], 0);
    verif::start_recording();
    let workers = 2 + (scn.seed % 2) as usize;
    let cfg = ServerCfg { workers, limit: 1, listeners: vec![LKind::Tcp], rt: scn.rt, shutdown_timeout: 1, backlog: 128 };
    let mut run = match engine::start(&cfg, |_| {}) {
        Ok(r) => r,
        Err(e) => return Outcome::Inconclusive(e),
    };
    let mut fails: Vec<Fail> = Vec::new();
    let mut held: Vec<Client> = Vec::new();
    let mut inconclusive: Option<String> = None;
    // all but one worker saturated
    for _ in 0..workers - 1 {
        match Client::connect(&run.addrs[0], 0, b'H') {
            Ok(mut c) => {
                let t0 = Instant::now();
                while c.poll_ack(Duration::from_millis(20)) == Ack::NotYet && t0.elapsed() < Duration::from_secs(5) {}
                if !c.served {
                    inconclusive = Some("holder not served".into());
                }
                held.push(c);
            }
            Err(e) => inconclusive = Some(format!("connect: {e}")),
        }
    }
    let mut victim = None;
    let mut next = None;
    if inconclusive.is_none() {
        let _ = run.barrier(false);
        // the next connection goes to the only free worker and kills it
        run.ctls[0].inner.lock().unwrap().panic_next_call = true;
        victim = Client::connect(&run.addrs[0], 0, b'F').ok();
        // the one after that must be served by somebody
        thread::sleep(Duration::from_millis(if scn.seed % 3 == 0 { 0 } else { 150 }));
        match Client::connect(&run.addrs[0], 0, b'F') {
            Ok(mut c) => {
                seen.faults_when_saturated += 1;
                let t0 = Instant::now();
                let mut ack = Ack::NotYet;
                while t0.elapsed() < Duration::from_secs(8) {
                    ack = c.poll_ack(Duration::from_millis(20));
                    if ack != Ack::NotYet {
                        break;
                    }
                }
                match ack {
                    Ack::Served => {}
                    // closed unserved: legitimate if it had been handed to the worker that was in the middle of dying
                    // (its queue is released when it is gone); the accept thread's own drops are judged on the log below
                    Ack::ClosedByServer => seen.lost_to_dying_worker += 1,
                    Ack::NotYet => match vh_core::proc::quiescent(Duration::from_millis(1500)) {
                        Some(true) => fails.push(fail(
                            "C01:connection-never-served-after-fault",
                            format!("{workers} workers, limit 1: the connection that followed a worker's death was neither served nor closed within 8 s; process quiescent; events {:?}", monitor::tail(&verif::log_since(0), 14)),
                        )),
                        _ => inconclusive = Some("connection after the fault not served yet, process busy".into()),
                    },
                }
                next = Some(c);
            }
            Err(e) => inconclusive = Some(format!("connect: {e}")),
        }
        // the accept thread's own account: a connection dropped for lack of workers while a handle was left
        let log = verif::log_since(0);
        for (i, r) in log.iter().enumerate() {
            if let Ev::DroppedNoWorkers { fd, .. } = &r.ev {
                let snap = log[..i].iter().rev().find_map(|x| if let Ev::LoopIdle(s) = &x.ev { Some(s.handles.clone()) } else { None }).unwrap_or_default();
                let failed: Vec<usize> = log[..=i].iter().filter_map(|x| if let Ev::DispatchFailed { worker, .. } = &x.ev { Some(*worker) } else { None }).collect();
                let left: Vec<usize> = snap.iter().copied().filter(|h| !failed.contains(h)).collect();
                if !left.is_empty() && fails.is_empty() {
                    fails.push(fail(
                        "C01:connection-discarded-while-worker-alive",
                        format!("fd {fd} was dropped for lack of workers although the accept thread still had handles {left:?}; events {:?}", monitor::around(&log, i, 6, 4)),
                    ));
                }
            }
        }
    }
    for c in held {
        c.close();
    }
    if let Some(c) = victim {
        c.close();
    }
    if let Some(c) = next {
        c.close();
    }
    let (stopped, _) = run.stop(false, Duration::from_secs(15));
    let joined = run.join(Duration::from_secs(15));
    verif::stop_recording();
    let gone = engine::wait_threads_gone(baseline_threads, Duration::from_secs(10));
    if !fails.is_empty() {
        return Outcome::Violated(fails);
    }
    if let Some(w) = inconclusive {
        return Outcome::Inconclusive(w);
    }
    if !stopped || !joined || !gone {
        return Outcome::Inconclusive("teardown did not finish".into());
    }
    Outcome::Held
}

pub fn run_scenario(scn: &Scn, seen: &mut Seen) -> Outcome {
    if scn.fault_when_saturated {
        return run_fault_when_saturated(scn, seen);
    }
    let baseline_threads = engine::thread_count();
    let fds_before = engine::open_fds();
    verif::clear_injected_accept_errors();
    verif::set_abort_spin(false);
    if scn.failpoints {
        verif::set_failpoints(
            &[
                ("accept:send-inc", Failpoint { per_mille: 200, min_us: 20, max_us: 800 }),
                ("worker:dec-wake", Failpoint { per_mille: 200, min_us: 20, max_us: 800 }),
                ("worker:recv-call", Failpoint { per_mille: 400, min_us: 50, max_us: 2000 }),
                ("accept:accept-dispatch", Failpoint { per_mille: 300, min_us: 20, max_us: 1000 }),
                ("server:pause-ack", Failpoint { per_mille: 500, min_us: 50, max_us: 1000 }),
                ("server:resume-ack", Failpoint { per_mille: 500, min_us: 50, max_us: 1000 }),
            ],
            scn.seed,
        );
    } else {
        verif::set_failpoints(&[], 0);
    }
    verif::start_recording();
    let cfg = ServerCfg {
        workers: scn.workers,
        limit: scn.limit,
        listeners: scn.listeners.clone(),
        rt: scn.rt,
        shutdown_timeout: 1,
        backlog: 256,
    };
    // a third of the scenarios let the builder create the sockets (`bind` / `bind_uds`, with a stale socket file in the
    // way) instead of handing it bound ones; derived from the seed without touching the scenario's random stream
    let via_bind = vh_core::fnv_str(&format!("bind{}", scn.seed)) % 3 == 0;
    if via_bind {
        engine::BIND_NEXT.store(true, std::sync::atomic::Ordering::SeqCst);
        seen.servers_built_with_bind += 1;
    }
    let mut run = match engine::start(&cfg, |_| {}) {
        Ok(r) => r,
        Err(e) => return Outcome::Inconclusive(e),
    };
    if scn.listeners.len() > 1 {
        seen.multi_listener_scenarios += 1;
    }
    let mut fails: Vec<Fail> = Vec::new();
    let nl = scn.listeners.len();
    let mut pre_instances: BTreeMap<u64, u64> = BTreeMap::new();
    if scn.prior_faults > 0 && scn.workers >= 2 {
        match run.fault_prelude(scn.prior_faults, scn.workers) {
            Ok(()) => {
                // the history proper starts here; service instances created so far stay known
                for r in verif::log_since(0) {
                    if let Ev::User { kind: "factory_new", a, b, .. } = &r.ev {
                        pre_instances.insert(*b, *a);
                    }
                }
                verif::start_recording();
                seen.prior_fault_preludes += 1;
            }
            Err(e) => {
                let _ = run.stop(false, Duration::from_secs(15));
                let _ = run.join(Duration::from_secs(15));
                verif::stop_recording();
                engine::wait_threads_gone(baseline_threads, Duration::from_secs(10));
                return Outcome::Inconclusive(e);
            }
        }
    }

    // ---- stress phase: concurrent clients, mixed behaviour
    let open: Arc<Mutex<Vec<Client>>> = Arc::new(Mutex::new(Vec::new()));
    let stop_flag = Arc::new(AtomicBool::new(false));
    let mut ths = Vec::new();
    for t in 0..scn.client_threads {
        let addrs = run.addrs.clone();
        let open = open.clone();
        let n = scn.conns_per_thread;
        let mut r = Rng::new(scn.seed ^ (t as u64 + 1) * 0x9E37);
        ths.push(thread::spawn(move || {
            let mut mine: Vec<Client> = Vec::new();
            let mut aborted = 0u64;
            for _ in 0..n {
                let l = r.usize(addrs.len());
                let mode = if r.chance(1, 3) { b'F' } else { b'H' };
                if let Ok(mut c) = Client::connect(&addrs[l], l, mode) {
                    match r.usize(6) {
                        0 => {
                            // abort right away (maybe before it is accepted)
                            aborted += 1;
                            c.close();
                            continue;
                        }
                        1 | 2 => {
                            let _ = c.poll_ack(Duration::from_millis(r.below(20)));
                        }
                        _ => {}
                    }
                    mine.push(c);
                    // release some of the held ones to keep things moving
                    if mine.len() > 2 && r.chance(1, 2) {
                        let k = r.usize(mine.len());
                        let mut c = mine.swap_remove(k);
                        let _ = c.poll_ack(Duration::from_millis(1));
                        c.close();
                    }
                }
                if r.chance(1, 4) {
                    thread::sleep(Duration::from_micros(r.below(500)));
                }
            }
            open.lock().unwrap().extend(mine);
            aborted
        }));
    }
    // optional pause / resume while clients are active
    if scn.pause_resume {
        let mut r = Rng::new(scn.seed ^ 0x77);
        thread::sleep(Duration::from_micros(200 + r.below(2000)));
        let _ = engine::block_on_timeout(run.handle.pause(), engine::WATCHDOG);
        thread::sleep(Duration::from_micros(200 + r.below(3000)));
        let _ = engine::block_on_timeout(run.handle.resume(), engine::WATCHDOG);
        seen.pause_resume_cycles += 1;
    }
    for t in ths {
        if let Ok(a) = t.join() {
            seen.aborted_by_client += a;
        }
    }
    let _ = stop_flag.load(Ordering::SeqCst);
    let mut clients: Vec<Client> = std::mem::take(&mut *open.lock().unwrap());

    // ---- quiescent point of the running server: nothing silently discarded
    // Clients that finish by themselves (mode 'F') keep freeing slots, so the backlog drains in a chain of
    // release -> notification -> accept steps. A cut is a quiescent point only when nothing was dispatched between two
    // successive barriers; a candidate "unserved although capacity is free" must persist across such a pair.
    let mut quiescent: Result<(actix_server::verif::Snapshot, usize), Waited> = run.barrier_at(false);
    let mut prev_dispatches = u64::MAX;
    for _ in 0..400 {
        match &quiescent {
            Ok((_, cut)) => {
                let mut log = verif::log_since(0);
                log.truncate(*cut + 1);
                let (c, _) = monitor::shadow(&log, scn.limit, false);
                if c.dispatch_total == prev_dispatches {
                    break;
                }
                prev_dispatches = c.dispatch_total;
                thread::sleep(Duration::from_millis(1));
                quiescent = run.barrier_at(false);
            }
            Err(_) => break,
        }
    }
    match quiescent {
        Ok((snap, cut)) => {
            seen.quiescent_points += 1;
            let mut log = verif::log_since(0);
            log.truncate(cut + 1);
            let (c, _) = monitor::shadow(&log, scn.limit, false);
            let accepted: u64 = c.accepted.values().sum();
            let dispatched_ok = c.dispatch_total - c.dispatch_failed;
            if accepted != dispatched_ok + c.dropped_no_workers {
                fails.push(fail(
                    "C01:accepted-not-dispatched",
                    format!("quiescent point: {accepted} connections accepted, {dispatched_ok} dispatched, {} dropped for lack of workers", c.dropped_no_workers),
                ));
            }
            if c.dropped_no_workers > 0 {
                fails.push(fail("C01:dropped-although-workers-alive", format!("{} connection(s) dropped 'no workers' in a run without faults", c.dropped_no_workers)));
            }
            let mut pending = 0i64;
            for (l, n) in &c.connects_ok {
                pending += *n as i64 - *c.accepted.get(l).unwrap_or(&0) as i64;
            }
            let spare: i64 = snap.handles.iter().map(|i| (scn.limit as i64 - *c.in_flight.get(i).unwrap_or(&0)).max(0)).sum();
            // every call leads to `identified` (header read) or to `end` (client went away): wait for that
            let _ = engine::wait_log(
                |l| {
                    let (mut calls, mut ident, mut anon_end) = (0u64, 0u64, 0u64);
                    for r in l {
                        if let Ev::User { kind, a, .. } = &r.ev {
                            match *kind {
                                "call" => calls += 1,
                                "identified" => ident += 1,
                                "end" if *a == u64::MAX => anon_end += 1,
                                _ => {}
                            }
                        }
                    }
                    ident + anon_end >= calls
                },
                Duration::from_secs(5),
            );
            let identified: HashSet<u64> = verif::with_log(|l| {
                l.iter().filter_map(|r| if let Ev::User { kind: "identified", a, .. } = &r.ev { Some(*a) } else { None }).collect()
            });
            // every still-open client is served, or waits for capacity
            let mut unserved_open = 0;
            for cl in clients.iter_mut() {
                let wait = if identified.contains(&cl.cid) { Duration::from_secs(3) } else { Duration::from_millis(1) };
                match cl.poll_ack(wait) {
                    Ack::Served => {}
                    Ack::NotYet => {
                        if identified.contains(&cl.cid) {
                            fails.push(fail("C01:identified-but-no-ack", format!("client {} was identified by a service call but never received its acknowledgement", cl.cid)));
                        } else {
                            unserved_open += 1
                        }
                    }
                    Ack::ClosedByServer => fails.push(fail(
                        "C01:connection-discarded-while-running",
                        format!("client {} (listener {}) had its socket closed by the running server without ever being served", cl.cid, cl.listener),
                    )),
                }
            }
            if unserved_open > 0 && spare > 0 && pending > 0 {
                fails.push(fail(
                    "C01:unserved-with-spare-capacity",
                    format!("quiescent point: {unserved_open} open client(s) unserved, {pending} in backlogs, {spare} free slots on live workers; in-flight {:?}; snapshot avail {:?} counters {:?}; last events {:?}", c.in_flight, snap.avail.iter().take(scn.workers).collect::<Vec<_>>(), snap.counters, monitor::tail(&log, 16)),
                ));
            }
            if unserved_open as i64 > pending {
                fails.push(fail(
                    "C01:accepted-but-never-called",
                    format!("quiescent point: {unserved_open} open clients are unserved but only {pending} connections are still in listener backlogs (an accepted connection was lost)"),
                ));
            }
        }
        Err(Waited::Stuck) => fails.push(fail(
            "C01:server-stuck-before-quiescence",
            format!("server stopped making progress (process quiescent); last events {:?}", monitor::tail(&verif::log_since(0), 12)),
        )),
        Err(_) => {
            let _ = run.stop(false, Duration::from_secs(10));
            for c in clients {
                c.close();
            }
            let _ = run.join(Duration::from_secs(10));
            verif::stop_recording();
            engine::wait_threads_gone(baseline_threads, Duration::from_secs(10));
            return Outcome::Inconclusive("barrier watchdog".into());
        }
    }

    // ---- stop while connections are still queued / in progress
    if scn.unready_at_stop {
        // the services stop answering "ready": a worker finds out when the next connection wakes it, parks in its
        // not-ready state and leaves that connection (and those dispatched after it) in its queue
        let ids: Vec<u64> = run.ctls[0].inner.lock().unwrap().instances.keys().copied().collect();
        for i in ids {
            run.ctls[0].set_script_quiet(i, &[engine::ReadyStep::Pending]);
        }
        seen.unready_at_stop += 1;
    }
    // add a burst that will be queued behind the limit
    let mut r = Rng::new(scn.seed ^ 0x99);
    for _ in 0..(1 + r.usize(4)) {
        let l = r.usize(nl);
        if let Ok(c) = Client::connect(&run.addrs[l], l, b'H') {
            clients.push(c);
        }
    }
    {
        let log = verif::log_since(0);
        let (c, _) = monitor::shadow(&log, scn.limit, false);
        let accepted: u64 = c.accepted.values().sum();
        let connects: u64 = c.connects_ok.values().sum();
        seen.queued_when_stop_issued += connects.saturating_sub(accepted);
    }
    let stop_pos = verif::log_len();
    let (resolved, _) = run.stop(scn.graceful, Duration::from_secs(20));
    if !resolved {
        match vh_core::proc::quiescent(Duration::from_millis(1500)) {
            Some(true) => fails.push(fail("C01:stop-never-resolves", "stop() did not resolve; process quiescent".to_string())),
            _ => {
                for c in clients {
                    c.close();
                }
                verif::stop_recording();
                return Outcome::Inconclusive("stop watchdog".into());
            }
        }
    }
    let resolved_pos = verif::log_len();
    // graceful stop waits for held connections only up to shutdown_timeout (1 s): release them now
    let joined = run.join(Duration::from_secs(20));
    // after shutdown every client must see its socket closed (served ones: future dropped; unserved: released)
    let t0 = Instant::now();
    let mut leaked: Vec<u64> = Vec::new();
    for cl in clients.iter_mut() {
        let was_served = cl.served;
        let mut closed = false;
        while t0.elapsed() < Duration::from_secs(5) {
            if was_served {
                if cl.server_closed(Duration::from_millis(20)) {
                    closed = true;
                    break;
                }
            } else {
                match cl.poll_ack(Duration::from_millis(20)) {
                    Ack::ClosedByServer => {
                        closed = true;
                        break;
                    }
                    Ack::Served => {
                        // served during shutdown? only legitimate if the call happened before stop resolved (checked below on the log)
                        if cl.server_closed(Duration::from_millis(20)) {
                            closed = true;
                            break;
                        }
                    }
                    Ack::NotYet => {}
                }
            }
        }
        if closed {
            if !was_served {
                seen.unserved_closed_at_shutdown += 1;
            }
        } else {
            leaked.push(cl.cid);
        }
    }
    if !leaked.is_empty() && joined {
        fails.push(fail(
            "C01:connection-leaked-at-shutdown",
            format!("after the server stopped, clients {leaked:?} still have an open socket (their connections were neither served to completion nor closed)"),
        ));
    }
    for c in clients {
        c.close();
    }
    let log = verif::log_since(0);
    verif::stop_recording();
    let threads_gone = engine::wait_threads_gone(baseline_threads, Duration::from_secs(10));
    for (_, _, fired) in verif::failpoint_stats() {
        seen.failpoint_hits += fired;
    }

    // ---- history oracles
    let mut connect_listener: HashMap<u64, u64> = HashMap::new();
    let mut ident: HashMap<u64, (u64, u64)> = HashMap::new();
    let mut instance_listener: BTreeMap<u64, u64> = pre_instances.clone();
    let mut dup: HashSet<u64> = HashSet::new();
    for (i, rec) in log.iter().enumerate() {
        if let Ev::User { kind, a, b, c } = &rec.ev {
            match *kind {
                "connect_call" => {
                    connect_listener.insert(*a, *b);
                }
                "factory_new" => {
                    instance_listener.insert(*b, *a);
                }
                "identified" => {
                    seen.served += 1;
                    if ident.insert(*a, (*b, *c)).is_some() {
                        dup.insert(*a);
                    }
                    seen.routing_checks += 1;
                    let want = connect_listener.get(a).copied();
                    if want != Some(*c) {
                        fails.push(fail(
                            "C01:wrong-listener-service",
                            format!("connection {a} was made to listener {want:?} but served by an instance (#{b}) of listener {c}'s service"),
                        ));
                    }
                    if instance_listener.get(b).copied() != Some(*c) {
                        fails.push(fail("C01:instance-listener-mismatch", format!("instance {b} was created for listener {:?} but reports {c}", instance_listener.get(b))));
                    }
                }
                // a forced stop does not wait for the workers: one may still take an already queued connection
                "call" if i >= resolved_pos && resolved && scn.graceful => {
                    fails.push(fail("C01:served-after-shutdown", format!("service call entered after stop() had resolved (event #{})", rec.seq)));
                }
                _ => {}
            }
        }
        if let Ev::ShutdownDrained { .. } = &rec.ev {
            seen.drained_at_shutdown += 1;
        }
    }
    seen.connections += connect_listener.len() as u64;
    if !dup.is_empty() {
        fails.push(fail("C01:connection-served-twice", format!("connection ids {dup:?} were identified by two service calls")));
    }
    // conservation on hook counts
    let (c, _) = monitor::shadow(&log, scn.limit, false);
    let accepted: u64 = c.accepted.values().sum();
    let dispatched_ok = c.dispatch_total - c.dispatch_failed;
    if accepted != dispatched_ok + c.dropped_no_workers {
        fails.push(fail("C01:accepted-not-dispatched", format!("whole run: accepted {accepted}, dispatched {dispatched_ok}, dropped {}", c.dropped_no_workers)));
    }
    if c.calls + c.drained > dispatched_ok {
        fails.push(fail("C01:more-calls-than-dispatches", format!("calls {} + drained {} > dispatched {dispatched_ok}", c.calls, c.drained)));
    }
    let _ = stop_pos;

    // ---- fd conservation
    if joined && threads_gone {
        seen.fd_conservation_checks += 1;
        let mut after = engine::open_fds();
        let t0 = Instant::now();
        while after > fds_before && t0.elapsed() < Duration::from_secs(3) {
            thread::sleep(Duration::from_millis(10));
            after = engine::open_fds();
        }
        if after > fds_before {
            let what: Vec<String> = std::fs::read_dir("/proc/self/fd")
                .map(|d| d.filter_map(|e| e.ok()).filter_map(|e| std::fs::read_link(e.path()).ok().map(|t| t.to_string_lossy().to_string())).collect())
                .unwrap_or_default();
            fails.push(fail(
                "C01:fd-leak",
                format!("{fds_before} file descriptors before the server started, {after} after it stopped and all clients closed; open now: {what:?}; threads now {}", engine::thread_count()),
            ));
        }
    } else if fails.is_empty() {
        return Outcome::Inconclusive("server threads did not exit in time".into());
    }
    if fails.is_empty() {
        Outcome::Held
    } else {
        Outcome::Violated(fails)
    }
}
