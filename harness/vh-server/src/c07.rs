//! C07 — workers call services only when ready; a failed readiness check rebuilds that service.
//!
//! Boundary-only oracle: per worker thread, the order of poll_ready results, factory instantiations
//! and call entries produced by scripted services.

use std::{
    collections::{BTreeMap, HashMap},
    thread,
    time::{Duration, Instant},
};

use actix_server::verif::{self, Ev, Rec};
use vh_core::{json, Rng, Value};

use crate::{
    engine::{self, Ack, Client, LKind, ReadyStep, RtKind, ServerCfg, Waited},
    monitor::{self, fail, Fail},
};

#[derive(Clone, Copy, Debug, PartialEq, Eq)]
pub enum Op {
    /// make the instance of listener l on worker w report Pending
    Pend(usize, usize),
    /// ... report Ready again
    Ready(usize, usize),
    /// readiness error (the worker must re-create exactly that service); `then` = script of the new instance
    Fail(usize, usize, Next),
    /// sequential client to listener l
    Connect(usize),
    /// readiness error that the worker only notices when the next connection wakes it, with two connections
    /// arriving back to back (the failure is met in the serving loop with a connection already queued)
    FailQuietThenConnect(usize, usize),
}

#[derive(Clone, Copy, Debug, PartialEq, Eq)]
pub enum Next {
    Ready,
    Pending,
    FailAgain,
}

#[derive(Clone, Debug)]
pub struct Scn {
    pub seed: u64,
    pub workers: usize,
    pub listeners: usize,
    pub rt: RtKind,
    pub ops: Vec<Op>,
}

impl Scn {
    pub fn from_seed(seed: u64) -> Scn {
        let mut r = Rng::new(seed);
        let workers = 1 + r.usize(2);
        let listeners = 1 + r.usize(3);
        let n = 2 + r.usize(9);
        let mut ops = Vec::new();
        for _ in 0..n {
            let (l, w) = (r.usize(listeners), r.usize(workers));
            ops.push(match r.usize(10) {
                0 | 1 => Op::Pend(l, w),
                2 | 3 => Op::Ready(l, w),
                4 => Op::Fail(l, w, *r.pick(&[Next::Ready, Next::Ready, Next::Pending, Next::FailAgain])),
                5 => Op::FailQuietThenConnect(l, w),
                _ => Op::Connect(l),
            });
        }
        Scn { seed, workers, listeners, rt: if r.chance(1, 3) { RtKind::Tokio } else { RtKind::Actix }, ops }
    }
    pub fn shape(&self) -> String {
        format!("w{} s{} {:?} {:?}", self.workers, self.listeners, self.rt, self.ops)
    }
    pub fn to_json(&self) -> Value {
        json!({"case_seed": self.seed, "shape": self.shape()})
    }
}

#[derive(Default, Clone)]
pub struct Seen {
    pub calls_checked: u64,
    pub ready_rounds_seen: u64,
    pub pending_results: u64,
    pub readiness_errors: u64,
    pub restarts_checked: u64,
    pub restart_of_fresh_instance: u64,
    pub calls_delayed_by_pending: u64,
    pub fifo_checks: u64,
    pub connections: u64,
    pub multi_service_workers: u64,
    pub errors_while_other_pending: u64,
    pub quiet_failures: u64,
}

pub enum Outcome {
    Held,
    Violated(Vec<Fail>),
    Inconclusive(String),
}

/// (listener, instance, thread) of every service instance created so far
fn instances(log: &[Rec]) -> Vec<(usize, u64, u64)> {
    log.iter()
        .filter_map(|r| match &r.ev {
            Ev::User { kind: "factory_new", a, b, .. } => Some((*a as usize, *b, r.thread)),
            _ => None,
        })
        .collect()
}

/// current instance of listener l on the worker with the given rank (threads sorted by first appearance)
fn current_instance(log: &[Rec], l: usize, w: usize) -> Option<u64> {
    let inst = instances(log);
    let mut threads: Vec<u64> = Vec::new();
    for (_, _, t) in &inst {
        if !threads.contains(t) {
            threads.push(*t);
        }
    }
    let t = *threads.get(w)?;
    inst.iter().rev().find(|(ll, _, tt)| *ll == l && *tt == t).map(|x| x.1)
}

pub fn run_scenario(scn: &Scn, seen: &mut Seen) -> Outcome {
    let baseline_threads = engine::thread_count();
    verif::clear_injected_accept_errors();
    verif::set_abort_spin(false);
    verif::set_failpoints(&[], 0);
    verif::start_recording();
    let cfg = ServerCfg { workers: scn.workers, limit: 64, // mostly Unix-domain listeners: the readiness protocol does not depend on the transport, and thousands of short
        // TCP scenarios per minute leave more sockets in TIME_WAIT than there are ephemeral ports
        listeners: (0..scn.listeners).map(|i| if (scn.seed >> (5 * i)) % 32 == 0 { LKind::Tcp } else { LKind::Uds }).collect(), rt: scn.rt, shutdown_timeout: 1, backlog: 128 };
    let mut run = match engine::start(&cfg, |ctls| {
        for c in ctls {
            c.inner.lock().unwrap().keep_wakers = true;
        }
    }) {
        Ok(r) => r,
        Err(e) => return Outcome::Inconclusive(e),
    };
    if scn.listeners > 1 {
        seen.multi_service_workers += 1;
    }
    let mut fails: Vec<Fail> = Vec::new();
    let mut clients: Vec<Client> = Vec::new();
    let mut inconclusive = None;

    for op in &scn.ops {
        let log = verif::log_since(0);
        match op {
            Op::Pend(l, w) => {
                if let Some(i) = current_instance(&log, *l, *w) {
                    run.ctls[*l].set_script(i, &[ReadyStep::Pending]);
                }
            }
            Op::Ready(l, w) => {
                if let Some(i) = current_instance(&log, *l, *w) {
                    run.ctls[*l].set_script(i, &[]);
                }
            }
            Op::Fail(l, w, next) => {
                if let Some(i) = current_instance(&log, *l, *w) {
                    {
                        let mut g = run.ctls[*l].inner.lock().unwrap();
                        g.initial_scripts.push_back(match next {
                            Next::Ready => vec![],
                            Next::Pending => vec![ReadyStep::Pending],
                            Next::FailAgain => vec![ReadyStep::Err],
                        });
                    }
                    run.ctls[*l].set_script(i, &[ReadyStep::Err]);
                }
            }
            Op::FailQuietThenConnect(l, w) => {
                if let Some(i) = current_instance(&log, *l, *w) {
                    run.ctls[*l].inner.lock().unwrap().initial_scripts.push_back(vec![]);
                    run.ctls[*l].set_script_quiet(i, &[ReadyStep::Err]);
                    seen.quiet_failures += 1;
                }
                // enough connections that every worker gets at least two, back to back
                for _ in 0..2 * scn.workers {
                    match Client::connect(&run.addrs[*l], *l, b'F') {
                        Ok(c) => {
                            seen.connections += 1;
                            clients.push(c)
                        }
                        Err(e) => {
                            inconclusive = Some(format!("connect: {e}"));
                            break;
                        }
                    }
                }
            }
            Op::Connect(l) => match Client::connect(&run.addrs[*l], *l, b'F') {
                Ok(c) => {
                    seen.connections += 1;
                    clients.push(c)
                }
                Err(e) => {
                    inconclusive = Some(format!("connect: {e}"));
                    break;
                }
            },
        }
        // let the worker react; the accept thread too
        match run.accept_barrier(false) {
            Ok(_) => {}
            Err(Waited::Stuck) => {
                fails.push(fail("C07:server-stuck", format!("server stopped reacting; last events {:?}", monitor::tail(&verif::log_since(0), 10))));
                break;
            }
            Err(_) => {
                inconclusive = Some("barrier watchdog".into());
                break;
            }
        }
        thread::sleep(Duration::from_micros(300));
    }

    // ---- epilogue: everything ready again; every connected client must be served
    if fails.is_empty() && inconclusive.is_none() {
        let t0 = Instant::now();
        loop {
            // newly re-created instances may have been scripted Pending / Err: clear all scripts repeatedly
            let log = verif::log_since(0);
            for (l, i, _) in instances(&log) {
                run.ctls[l].set_script(i, &[]);
            }
            let mut all = true;
            for c in clients.iter_mut() {
                if c.poll_ack(Duration::from_millis(5)) == Ack::NotYet {
                    all = false;
                }
            }
            if all {
                break;
            }
            if t0.elapsed() > Duration::from_secs(8) {
                match vh_core::proc::quiescent(Duration::from_millis(1500)) {
                    Some(true) => {
                        let unserved: Vec<u64> = clients.iter().filter(|c| !c.served && !c.closed_by_server).map(|c| c.cid).collect();
                        fails.push(fail(
                            "C07:queued-connection-never-served",
                            format!("all services report ready again but clients {unserved:?} are never called; process quiescent; last events {:?}", monitor::tail(&verif::log_since(0), 14)),
                        ));
                    }
                    _ => inconclusive = Some("epilogue watchdog".into()),
                }
                break;
            }
        }
        for c in &clients {
            if c.closed_by_server && !c.served {
                fails.push(fail("C07:queued-connection-lost", format!("client {} was closed by the server without being served (lost across a readiness change / restart)", c.cid)));
            }
        }
    }

    // ---- teardown
    let (_stopped, _) = run.stop(false, Duration::from_secs(15));
    for c in clients {
        c.close();
    }
    let joined = run.join(Duration::from_secs(15));
    let log = verif::log_since(0);
    verif::stop_recording();
    let gone = engine::wait_threads_gone(baseline_threads, Duration::from_secs(10));
    let stop_at = log.iter().position(|r| matches!(&r.ev, Ev::User { kind: "cmd_stop", .. })).unwrap_or(log.len());
    let log = &log[..stop_at];

    // ---- per-thread order oracle
    let mut per_thread: BTreeMap<u64, Vec<&Rec>> = BTreeMap::new();
    for r in log {
        if let Ev::User { kind, .. } = &r.ev {
            if matches!(*kind, "poll_ready" | "call" | "factory_new") {
                per_thread.entry(r.thread).or_default().push(r);
            }
        }
    }
    for (t, evs) in &per_thread {
        // current instance per listener on this thread
        let mut current: BTreeMap<u64, u64> = BTreeMap::new();
        // instances that reported Ready since the last non-ready result / call
        let mut ready_now: Vec<u64> = Vec::new();
        // a readiness error waiting for its re-creation: (listener, instance)
        let mut awaiting_restart: Option<(u64, u64)> = None;
        let mut initial_done = false;
        let mut pending_seen_since_call = false;
        let mut ever_ready: Vec<u64> = Vec::new();
        for r in evs {
            let Ev::User { kind, a, b, c } = &r.ev else { continue };
            match *kind {
                "factory_new" => {
                    // a = listener, b = instance
                    if let Some((l, old)) = awaiting_restart {
                        if *a != l {
                            fails.push(fail(
                                "C07:wrong-service-recreated",
                                format!("instance {old} of service {l} failed its readiness check but service {a} was re-created (thread {t:04x})"),
                            ));
                        } else {
                            seen.restarts_checked += 1;
                        }
                        awaiting_restart = None;
                    } else if initial_done {
                        fails.push(fail(
                            "C07:service-recreated-without-failure",
                            format!("service {a} was re-created (instance {b}) on thread {t:04x} although none of its instances had reported a readiness error"),
                        ));
                    }
                    current.insert(*a, *b);
                    ready_now.clear();
                }
                "poll_ready" => {
                    initial_done = true;
                    // a = instance, b = result (0 pending, 1 ready, 2 err), c = listener
                    if current.get(c) != Some(a) {
                        // an old instance polled after its replacement exists
                        if current.contains_key(c) {
                            fails.push(fail("C07:stale-instance-polled", format!("instance {a} of service {c} was polled after it had been replaced by {:?}", current.get(c))));
                        }
                    }
                    match *b {
                        1 => {
                            if !ever_ready.contains(a) {
                                ever_ready.push(*a);
                            }
                            if !ready_now.contains(a) {
                                ready_now.push(*a);
                            }
                            if ready_now.len() == current.len() {
                                seen.ready_rounds_seen += 1;
                            }
                        }
                        0 => {
                            seen.pending_results += 1;
                            pending_seen_since_call = true;
                            ready_now.clear();
                        }
                        _ => {
                            seen.readiness_errors += 1;
                            if pending_seen_since_call {
                                seen.errors_while_other_pending += 1;
                            }
                            if let Some((l, _)) = awaiting_restart {
                                fails.push(fail("C07:second-failure-before-restart", format!("service {l} had not been re-created yet when another readiness error was taken")));
                            }
                            if !ever_ready.contains(a) {
                                seen.restart_of_fresh_instance += 1;
                            }
                            awaiting_restart = Some((*c, *a));
                            ready_now.clear();
                        }
                    }
                }
                "call" => {
                    // a = instance, b = listener
                    seen.calls_checked += 1;
                    if let Some((l, old)) = awaiting_restart {
                        fails.push(fail(
                            "C07:call-before-failed-service-recreated",
                            format!("a connection was handed to service {b} (instance {a}) while instance {old} of service {l} had failed its readiness check and had not been re-created"),
                        ));
                    }
                    let missing: Vec<u64> = current.values().filter(|i| !ready_now.contains(i)).copied().collect();
                    if !missing.is_empty() {
                        fails.push(fail(
                            "C07:call-without-full-ready-round",
                            format!(
                                "service call (instance {a}, service {b}, event #{}) on thread {t:04x} was not preceded by a round in which every service of the worker reported ready: instances {missing:?} had not (current instances {current:?}); context {:?}",
                                r.seq,
                                monitor::around(log, r.seq as usize, 6, 1)
                            ),
                        ));
                    }
                    if current.get(b) != Some(a) {
                        fails.push(fail("C07:call-on-replaced-instance", format!("service {b}: call went to instance {a} but the current instance is {:?}", current.get(b))));
                    }
                    if pending_seen_since_call {
                        seen.calls_delayed_by_pending += 1;
                    }
                    pending_seen_since_call = false;
                    // the worker re-checks readiness before the next connection
                    ready_now.clear();
                }
                _ => {}
            }
        }
    }
    // ---- FIFO per listener (single worker): connections are called in the order they were dispatched
    if scn.workers == 1 {
        let mut dispatched: HashMap<usize, Vec<i32>> = HashMap::new();
        let mut called: HashMap<usize, Vec<i32>> = HashMap::new();
        for r in log {
            match &r.ev {
                Ev::Dispatch { token, fd, .. } => dispatched.entry(*token).or_default().push(*fd),
                Ev::User { kind: "call", b, c, .. } => called.entry(*b as usize).or_default().push(*c as i32),
                _ => {}
            }
        }
        for (l, calls) in &called {
            seen.fifo_checks += 1;
            let d = dispatched.get(l).cloned().unwrap_or_default();
            if calls.len() > d.len() || calls[..] != d[..calls.len()] {
                fails.push(fail(
                    "C07:queued-connections-served-out-of-order",
                    format!("service {l}: connections were dispatched with fds {d:?} but called in order {calls:?}"),
                ));
            }
        }
    }
    if !fails.is_empty() {
        return Outcome::Violated(fails);
    }
    if let Some(w) = inconclusive {
        return Outcome::Inconclusive(w);
    }
    if !joined || !gone {
        return Outcome::Inconclusive("teardown".into());
    }
    Outcome::Held
}
