//! Unit-level companions of C03 / C04: the real `Counter`, `WorkerCounter` guard and `Availability`
//! bitset (through the guarded probes) against reference models. Runs natively and under Miri.

use std::{sync::Arc, thread};

use actix_server::verif::{AvailabilityProbe, CounterProbe, WorkerCounterProbe};
use vh_core::{catch, json, Args, Report, Rng};

use crate::monitor::{fail, Fail};

// ------------------------------------------------------------------ Counter (C03)

/// ops: true = inc (a dispatch was recorded by the accept thread), false = dec (a connection finished)
fn counter_case(limit: usize, ops: &[bool]) -> Result<(u64, u64), Fail> {
    let c = CounterProbe::new(limit);
    let mut in_flight = 0usize;
    let (mut sat, mut notif) = (0u64, 0u64);
    for (i, op) in ops.iter().enumerate() {
        if *op {
            let still_available = c.inc();
            in_flight += 1;
            let want_available = in_flight != limit;
            if in_flight == limit {
                sat += 1;
            }
            // beyond the limit (forced sends after a fault) the answer is unspecified; only the crossing matters
            if in_flight <= limit && still_available != want_available {
                return Err(fail(
                    "C03:probe:inc-saturation-report",
                    format!("limit {limit}: inc() -> {still_available} with {in_flight} in flight after it (op #{i} of {ops:?})"),
                ));
            }
        } else {
            let notify = c.dec();
            let was = in_flight;
            in_flight -= 1;
            let want = was == limit;
            if want {
                notif += 1;
            }
            if notify != want {
                return Err(fail(
                    format!("C03:probe:dec-crossing-report:limit{}", if limit == 1 { "=1" } else { ">1" }),
                    format!(
                        "limit {limit}: a connection finished while {was} were in flight; dec() -> {notify}, but the worker must notify the accept thread exactly when it leaves saturation ({want}) (op #{i} of {:?})",
                        ops.iter().map(|b| if *b { '+' } else { '-' }).collect::<String>()
                    ),
                ));
            }
        }
        if c.total() != in_flight {
            return Err(fail("C03:probe:total-mismatch", format!("total() = {} with {in_flight} in flight", c.total())));
        }
    }
    Ok((sat, notif))
}

fn guard_case(limit: usize, idx: usize, ops: &[bool]) -> Result<u64, Fail> {
    let p = WorkerCounterProbe::new(idx, limit).map_err(|e| fail("C03:probe:harness", e.to_string()))?;
    let mut guards = Vec::new();
    let mut notifs = 0;
    for (i, op) in ops.iter().enumerate() {
        if *op {
            // accept side: dispatch then record; worker side: the guard travels with the connection
            guards.push(p.guard());
            let _ = p.inc();
        } else {
            let was = guards.len();
            guards.pop();
            let got = p.drain_notifications();
            let want: Vec<usize> = if was == limit { vec![idx] } else { vec![] };
            if got != want {
                return Err(fail(
                    format!("C03:probe:guard-notification:limit{}", if limit == 1 { "=1" } else { ">1" }),
                    format!("limit {limit}: dropping a guard with {was} in flight pushed notifications {got:?}, expected {want:?} (op #{i})"),
                ));
            }
            notifs += got.len() as u64;
        }
    }
    Ok(notifs)
}

fn counter_two_threads(limit: usize, n: usize, seed: u64) -> Result<(u64, u64), Fail> {
    // accept thread increments after each "send", worker decrements when "done"; tokens flow through a channel
    let c = CounterProbe::new(limit);
    let (tx, rx) = std::sync::mpsc::channel::<()>();
    let c2 = c.clone();
    let worker = thread::spawn(move || {
        let mut r = Rng::new(seed ^ 1);
        let mut downs = 0u64;
        while rx.recv().is_ok() {
            if r.chance(1, 3) {
                thread::yield_now();
            }
            if c2.dec() {
                downs += 1;
            }
        }
        downs
    });
    let mut r = Rng::new(seed);
    let mut ups = 0u64;
    let mut sent = 0usize;
    while sent < n {
        // "send" first, count afterwards: the worker may finish before the increment (the counter's +1 bias)
        let _ = tx.send(());
        if r.chance(1, 3) {
            thread::yield_now();
        }
        if !c.inc() {
            ups += 1;
        }
        sent += 1;
    }
    drop(tx);
    let downs = worker.join().unwrap();
    if c.total() != 0 {
        return Err(fail("C03:probe:total-mismatch", format!("total() = {} after all {n} connections finished", c.total())));
    }
    // every time the count reached the limit it must have been reported on the way down exactly once
    if ups != downs {
        return Err(fail(
            format!("C03:probe:saturations-vs-notifications:limit{}", if limit == 1 { "=1" } else { ">1" }),
            format!("limit {limit}: {ups} saturations were reported to the accept thread but {downs} 'available again' notifications were produced"),
        ));
    }
    Ok((ups, downs))
}

pub fn run_c03_probes(args: &Args, rep: &mut Report) {
    let maxlen = if args.slow() { 6 } else if args.thorough() { 14 } else { 12 };
    let (mut sat, mut notif, mut gnotif) = (0u64, 0u64, 0u64);
    let mut n = 0u64;
    for limit in 1..=4usize {
        for len in 1..=maxlen {
            for bits in 0u32..(1 << len) {
                let ops: Vec<bool> = (0..len).map(|i| bits & (1 << i) != 0).collect();
                // valid: never negative, never more than limit + 1 in flight
                let mut f = 0i32;
                let mut ok = true;
                for o in &ops {
                    f += if *o { 1 } else { -1 };
                    if f < 0 || f as usize > limit + 1 {
                        ok = false;
                        break;
                    }
                }
                if !ok {
                    continue;
                }
                n += 1;
                if !args.mine(n) {
                    continue;
                }
                rep.evaluations += 1;
                match catch(|| counter_case(limit, &ops)) {
                    Ok(Ok((s, d))) => {
                        sat += s;
                        notif += d;
                        if s > 0 {
                            rep.distinct_counted += 1;
                        }
                    }
                    Ok(Err(f)) => rep.violation(f.sig, f.desc, json!({"kind": "counter-probe", "limit": limit, "ops": ops})),
                    Err(p) => rep.violation("C03:probe:panic", p, json!({"kind": "counter-probe", "limit": limit, "ops": ops})),
                }
                if len <= 8 && ops.iter().filter(|o| **o).count() <= limit {
                    rep.evaluations += 1;
                    match catch(|| guard_case(limit, (n % 7) as usize, &ops)) {
                        Ok(Ok(g)) => gnotif += g,
                        Ok(Err(f)) => rep.violation(f.sig, f.desc, json!({"kind": "guard-probe", "limit": limit, "ops": ops})),
                        Err(p) => rep.violation("C03:probe:panic", p, json!({"kind": "guard-probe", "limit": limit, "ops": ops})),
                    }
                }
            }
        }
    }
    let rounds = if args.slow() { 2 } else if args.thorough() { 400 } else { 60 };
    let (mut ups, mut downs) = (0, 0);
    for i in 0..rounds {
        if !args.mine(i) {
            continue;
        }
        for limit in 1..=4usize {
            rep.evaluations += 1;
            match counter_two_threads(limit, if args.slow() { 40 } else { 3000 }, args.seed ^ i ^ (limit as u64) << 8) {
                Ok((u, d)) => {
                    ups += u;
                    downs += d;
                }
                Err(f) => rep.violation(f.sig, f.desc, json!({"kind": "counter-two-threads", "limit": limit})),
            }
        }
    }
    rep.add("obs_probe_saturations", sat);
    rep.add("obs_probe_notifications_expected", notif);
    rep.add("obs_probe_guard_notifications", gnotif);
    rep.add("obs_probe_two_thread_saturations", ups);
    rep.add("obs_probe_two_thread_notifications", downs);
    rep.add("probe_counter_sequences_all_shards", n);
}

// ------------------------------------------------------------------ Availability (C04)

pub fn run_c04_probes(args: &Args, rep: &mut Report) {
    let mut singles = 0u64;
    let mut pairs = 0u64;
    // every index alone
    for i in 0..512usize {
        rep.evaluations += 1;
        let r = catch(|| {
            let mut a = AvailabilityProbe::new();
            if a.available() {
                return Err(fail("C04:probe:fresh-not-empty", "a fresh bitset reports available()".to_string()));
            }
            a.set(i, true);
            for j in 0..512 {
                if a.get(j) != (j == i) {
                    return Err(fail("C04:probe:set-affects-other-index", format!("after set({i}) from empty, get({j}) = {}", a.get(j))));
                }
            }
            if !a.available() {
                return Err(fail("C04:probe:available-false-with-bit-set", format!("available() is false with only bit {i} set")));
            }
            a.set(i, false);
            if a.available() || a.get(i) {
                return Err(fail("C04:probe:clear-does-not-clear", format!("bit {i} still set after clearing")));
            }
            Ok(())
        });
        singles += 1;
        match r {
            Ok(Ok(())) => rep.distinct_counted += 1,
            Ok(Err(f)) => rep.violation(f.sig, f.desc, json!({"kind": "availability-single", "idx": i})),
            Err(p) => rep.violation("C04:probe:panic", format!("index {i}: {p}"), json!({"kind": "availability-single", "idx": i})),
        }
    }
    // every ordered pair: set both, clear i => exactly {j}
    let js: Vec<usize> = if args.slow() { (0..512).step_by(37).collect() } else { (0..512).collect() };
    let is: Vec<usize> = if args.slow() { (0..512).step_by(5).collect() } else { (0..512).collect() };
    for &i in &is {
        if !args.mine(i as u64) {
            continue;
        }
        for &j in &js {
            if i == j {
                continue;
            }
            pairs += 1;
            let r = catch(|| {
                let mut a = AvailabilityProbe::new();
                a.set(i, true);
                a.set(j, true);
                if !(a.get(i) && a.get(j)) {
                    return Err(fail("C04:probe:pair-set-lost", format!("after set({i}), set({j}): get = ({}, {})", a.get(i), a.get(j))));
                }
                a.set(i, false);
                if a.get(i) || !a.get(j) || !a.available() {
                    return Err(fail(
                        "C04:probe:clear-affects-other-index",
                        format!("after set({i}), set({j}), clear({i}): get({i}) = {}, get({j}) = {}, available = {}", a.get(i), a.get(j), a.available()),
                    ));
                }
                // spot-check a few uninvolved indices
                for k in [0usize, 127, 128, 255, 256, 383, 384, 511] {
                    if k != j && a.get(k) {
                        return Err(fail("C04:probe:set-affects-other-index", format!("pair ({i},{j}): uninvolved bit {k} is set")));
                    }
                }
                Ok(())
            });
            match r {
                Ok(Ok(())) => {}
                Ok(Err(f)) => rep.violation(f.sig, f.desc, json!({"kind": "availability-pair", "i": i, "j": j})),
                Err(p) => rep.violation("C04:probe:panic", format!("pair ({i},{j}): {p}"), json!({"kind": "availability-pair", "i": i, "j": j})),
            }
        }
    }
    rep.evaluations += pairs;
    // random op sequences against Vec<bool>
    let n_ops = if args.slow() { 2_000 } else { 200_000 };
    let mut rng = Rng::new(args.seed ^ 0xA7).fork(args.shard);
    let mut a = AvailabilityProbe::new();
    let mut m = vec![false; 512];
    rep.evaluations += 1;
    for step in 0..n_ops {
        let i = rng.usize(512);
        let v = rng.chance(1, 2);
        a.set(i, v);
        m[i] = v;
        let k = rng.usize(512);
        if a.get(k) != m[k] || a.available() != m.iter().any(|b| *b) {
            rep.violation(
                "C04:probe:differs-from-model",
                format!("step {step}: get({k}) = {} model {}, available() = {}", a.get(k), m[k], a.available()),
                json!({"kind": "availability-random", "seed": args.seed}),
            );
            break;
        }
    }
    // the documented maximum: index 512 is rejected
    let r = catch(|| {
        let mut a = AvailabilityProbe::new();
        a.set(512, true);
    });
    if r.is_ok() {
        rep.violation("C04:probe:index-512-accepted", "set(512) did not panic although 512 workers is the documented maximum", json!({"kind": "availability-512"}));
    }
    rep.add("obs_probe_single_indices", singles);
    rep.add("obs_probe_index_pairs", pairs);
    rep.add("obs_probe_random_ops", n_ops);
    let _ = Arc::new(());
}
