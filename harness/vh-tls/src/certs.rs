//! Certificates generated per run with rcgen: a trusted CA with leaves for `good.test` and `other.test`,
//! a self-signed `good.test`, and a leaf for `good.test` from an untrusted CA.

use rcgen::{BasicConstraints, CertificateParams, DnType, IsCa, KeyPair};

#[derive(Clone)]
pub struct Identity {
    pub cert_der: Vec<u8>,
    pub key_der: Vec<u8>,
    pub cert_pem: String,
    pub key_pem: String,
}

pub struct Pki {
    pub ca_der: Vec<u8>,
    pub ca_pem: String,
    pub good: Identity,
    pub other: Identity,
    pub self_signed: Identity,
    pub untrusted: Identity,
    /// trusted leaf with a DNS name (good.test) and an iPAddress (127.0.0.1) subject alternative name
    pub ip_good: Identity,
}

fn ca(name: &str) -> (rcgen::Certificate, KeyPair) {
    let mut p = CertificateParams::new(Vec::<String>::new()).unwrap();
    p.is_ca = IsCa::Ca(BasicConstraints::Unconstrained);
    p.distinguished_name.push(DnType::CommonName, name);
    let k = KeyPair::generate().unwrap();
    let c = p.self_signed(&k).unwrap();
    (c, k)
}

fn leaf(name: &str, issuer: Option<(&rcgen::Certificate, &KeyPair)>) -> Identity {
    leaf_sans(name, &[name], issuer)
}

fn leaf_sans(name: &str, sans: &[&str], issuer: Option<(&rcgen::Certificate, &KeyPair)>) -> Identity {
    let mut p = CertificateParams::new(sans.iter().map(|s| s.to_string()).collect::<Vec<_>>()).unwrap();
    p.distinguished_name.push(DnType::CommonName, name);
    let k = KeyPair::generate().unwrap();
    let c = match issuer {
        Some((ic, ik)) => p.signed_by(&k, ic, ik).unwrap(),
        None => p.self_signed(&k).unwrap(),
    };
    Identity {
        cert_der: c.der().to_vec(),
        key_der: k.serialize_der(),
        cert_pem: c.pem(),
        key_pem: k.serialize_pem(),
    }
}

pub fn generate() -> Pki {
    let (ca_cert, ca_key) = ca("vh trusted CA");
    let (bad_ca, bad_key) = ca("vh untrusted CA");
    Pki {
        ca_der: ca_cert.der().to_vec(),
        ca_pem: ca_cert.pem(),
        good: leaf("good.test", Some((&ca_cert, &ca_key))),
        other: leaf("other.test", Some((&ca_cert, &ca_key))),
        self_signed: leaf("good.test", None),
        untrusted: leaf("good.test", Some((&bad_ca, &bad_key))),
        ip_good: leaf_sans("good.test", &["good.test", "127.0.0.1"], Some((&ca_cert, &ca_key))),
    }
}
