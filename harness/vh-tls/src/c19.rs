//! C19 — connector: resolution precedence, ordered fallback, hostname-verified TLS.

use std::{
    cell::RefCell,
    net::{IpAddr, Ipv4Addr, SocketAddr, TcpListener as StdListener},
    rc::Rc,
    sync::Arc,
    time::Duration,
};

use actix_service::Service;
use actix_tls::connect::{
    native_tls as cntls, openssl as cossl, rustls_0_20 as crustls20, rustls_0_21 as crustls21, rustls_0_22 as crustls22, rustls_0_23 as crustls, ConnectError, ConnectInfo, Connection, Connector, Resolve, Resolver, ResolverService,
    tcp::TcpConnector,
};
use futures_core::future::LocalBoxFuture;
use tokio::io::{AsyncReadExt, AsyncWriteExt};
use vh_core::{fnv_str, json, Args, Report, Rng};

use crate::{
    c18::{openssl_client, rustls_client_config, rustls_server_config},
    certs::{Identity, Pki},
    pipe::{self, Pipe},
};

pub struct Fail {
    pub sig: String,
    pub desc: String,
}
fn fail<T>(sig: &str, desc: String) -> Result<T, Fail> {
    Err(Fail { sig: sig.into(), desc })
}

#[derive(Default)]
pub struct Seen {
    pub connects_ok: u64,
    pub fallbacks: u64,
    pub all_dead: u64,
    pub last_error_identified: u64,
    pub resolver_bypassed: u64,
    pub resolver_used: u64,
    pub no_records: u64,
    pub resolver_errors: u64,
    pub unresolved: u64,
    pub local_addr_cases: u64,
    pub ip_literal_cases: u64,
    pub tls_ok: u64,
    pub tls_rejected: u64,
    pub tls_invalid_names: u64,
    pub tls_payload_bytes: u64,
    /// per TLS connector adapter (index = Conn as usize)
    pub tls_ok_by: [u64; 6],
    pub tls_rejected_by: [u64; 6],
    pub later_live_untouched: u64,
    pub preset_with_literal_host: u64,
    pub ipv6_lists: u64,
    pub local_addr6_cases: u64,
    pub services_from_factory: u64,
}

// ------------------------------------------------------------------ resolution + TCP fallback

#[derive(Clone, Copy, Debug, PartialEq, Eq)]
enum Entry {
    Live,
    Refused,
    Unreachable,
    /// a live listener on the IPv6 loopback address (at most one per list)
    Live6,
}

#[derive(Clone, Copy, Debug, PartialEq, Eq)]
enum How {
    /// addresses pre-set on the request (set_addrs / with_addr): the resolver must not be consulted
    PreSet,
    /// addresses pre-set on a request whose host string is itself an IP literal naming a different (live, decoy)
    /// endpoint: the carried addresses win, the literal is never dialled
    PreSetLiteralHost,
    /// host is an IPv4 literal "127.0.0.1:port" (single entry lists only)
    IpLiteral,
    /// host "svc.test:port" through a custom resolver returning the list
    Custom,
    /// ... the custom resolver fails
    CustomErr,
}

struct LogResolver {
    answer: Result<Vec<SocketAddr>, String>,
    calls: Rc<RefCell<Vec<(String, u16)>>>,
}

impl Resolve for LogResolver {
    fn lookup<'a>(&'a self, host: &'a str, port: u16) -> LocalBoxFuture<'a, Result<Vec<SocketAddr>, Box<dyn std::error::Error>>> {
        self.calls.borrow_mut().push((host.to_string(), port));
        let a = self.answer.clone();
        Box::pin(async move {
            tokio::task::yield_now().await;
            a.map_err(|e| e.into())
        })
    }
}

struct Net {
    lives: Vec<StdListener>,
    refused: Vec<SocketAddr>,
    unreachable: Option<SocketAddr>,
    /// a live listener that is never part of an address list
    decoy: StdListener,
    live6: Option<StdListener>,
    #[allow(dead_code)]
    refused_holders: Vec<socket2::Socket>,
}

impl Net {
    fn new() -> Net {
        let mut lives = Vec::new();
        for _ in 0..4 {
            let l = StdListener::bind("127.0.0.1:0").unwrap();
            l.set_nonblocking(true).unwrap();
            lives.push(l);
        }
        // descending ports: the order of any list with two live entries differs from the addresses' natural order
        lives.sort_by_key(|l| std::cmp::Reverse(l.local_addr().unwrap().port()));
        // closed ports: sockets that are bound (so that nobody else, in this process or in a parallel shard, can be given
        // the port) but never listen; a connect to them is refused
        let mut refused = Vec::new();
        let mut refused_holders = Vec::new();
        for _ in 0..4 {
            let sk = socket2::Socket::new(socket2::Domain::IPV4, socket2::Type::STREAM, None).unwrap();
            sk.bind(&"127.0.0.1:0".parse::<SocketAddr>().unwrap().into()).unwrap();
            refused.push(sk.local_addr().unwrap().as_socket().unwrap());
            refused_holders.push(sk);
        }
        refused.sort_by_key(|a: &SocketAddr| std::cmp::Reverse(a.port()));
        // a second, distinguishable kind of dead address (only used if it fails immediately with another error kind)
        let cand: SocketAddr = "255.255.255.255:9".parse().unwrap();
        let unreachable = match std::net::TcpStream::connect_timeout(&cand, Duration::from_millis(200)) {
            Err(e) if e.kind() != std::io::ErrorKind::ConnectionRefused && e.kind() != std::io::ErrorKind::TimedOut => Some(cand),
            _ => None,
        };
        let decoy = StdListener::bind("127.0.0.1:0").unwrap();
        decoy.set_nonblocking(true).unwrap();
        let live6 = StdListener::bind("[::1]:0").ok().map(|l| {
            l.set_nonblocking(true).unwrap();
            l
        });
        Net { lives, refused, unreachable, decoy, live6, refused_holders }
    }
    fn drain6(&self) -> usize {
        let mut n = 0;
        if let Some(l) = &self.live6 {
            while l.accept().is_ok() {
                n += 1;
            }
        }
        n
    }
    fn drain_decoy(&self) -> usize {
        let mut n = 0;
        while self.decoy.accept().is_ok() {
            n += 1;
        }
        n
    }
    fn drain(&self) -> Vec<usize> {
        self.lives
            .iter()
            .map(|l| {
                let mut n = 0;
                while l.accept().is_ok() {
                    n += 1;
                }
                n
            })
            .collect()
    }
}

fn kind_of(e: &ConnectError) -> String {
    match e {
        ConnectError::Resolver(_) => "Resolver".into(),
        ConnectError::NoRecords => "NoRecords".into(),
        ConnectError::InvalidInput => "InvalidInput".into(),
        ConnectError::Unresolved => "Unresolved".into(),
        ConnectError::Io(e) => format!("Io({:?})", e.kind()),
        #[allow(unreachable_patterns)]
        _ => "other".into(),
    }
}

/// `local`: 0 none, 1 local_addr 127.0.0.1, 2 local_addr ::1 (every IPv4 address of the list then fails at once with
/// an address-family error and the fallback has to go on to the IPv6 one). `via_factory`: the connector service is
/// obtained through `ServiceFactory::new_service` instead of `Connector::service`.
async fn tcp_case(net: &Net, list: &[Entry], how: How, local: u8, via_factory: bool, seen: &mut Seen) -> Result<(), Fail> {
    let local6 = local == 2;
    let local = local == 1;
    // concrete addresses
    let (mut li, mut ri) = (0, 0);
    let addrs: Vec<SocketAddr> = list
        .iter()
        .map(|e| match e {
            Entry::Live => {
                li += 1;
                net.lives[li - 1].local_addr().unwrap()
            }
            Entry::Refused => {
                ri += 1;
                net.refused[ri - 1]
            }
            Entry::Unreachable => net.unreachable.unwrap(),
            Entry::Live6 => net.live6.as_ref().unwrap().local_addr().unwrap(),
        })
        .collect();
    let _ = net.drain();
    let _ = net.drain_decoy();
    let _ = net.drain6();
    let calls = Rc::new(RefCell::new(Vec::new()));
    let resolver = LogResolver {
        answer: if how == How::CustomErr { Err("scripted resolver failure".into()) } else { Ok(addrs.clone()) },
        calls: calls.clone(),
    };
    let connector = Connector::new(Resolver::custom(resolver));
    let svc = if via_factory {
        seen.services_from_factory += 1;
        match actix_service::ServiceFactory::<ConnectInfo<String>>::new_service(&connector, ()).await {
            Ok(s) => s,
            Err(()) => return fail("C19:factory-failed", "Connector::new_service failed".into()),
        }
    } else {
        connector.service()
    };
    let what = format!("list {list:?} via {how:?}{}{}", if local { " with local_addr 127.0.0.1" } else if local6 { " with local_addr ::1" } else { "" }, if via_factory { " (service from the factory)" } else { "" });
    let mut req: ConnectInfo<String> = match how {
        How::PreSet => {
            if addrs.len() == 1 && list.len() % 2 == 1 {
                ConnectInfo::with_addr("pre.test".to_string(), addrs[0])
            } else {
                ConnectInfo::new("pre.test:1".to_string()).set_addrs(addrs.clone())
            }
        }
        How::PreSetLiteralHost => ConnectInfo::new(format!("127.0.0.1:{}", net.decoy.local_addr().unwrap().port())).set_addrs(addrs.clone()),
        How::IpLiteral => ConnectInfo::new(format!("127.0.0.1:{}", addrs[0].port())),
        How::Custom | How::CustomErr => ConnectInfo::new("svc.test:77".to_string()),
    };
    if local6 {
        req = req.set_local_addr(IpAddr::V6(std::net::Ipv6Addr::LOCALHOST));
        seen.local_addr6_cases += 1;
    }
    if local {
        req = req.set_local_addr(IpAddr::V4(Ipv4Addr::LOCALHOST));
        seen.local_addr_cases += 1;
    }
    let res = tokio::time::timeout(Duration::from_secs(20), svc.call(req)).await;
    let res = match res {
        Ok(r) => r,
        Err(_) => return fail("C19:connect-never-completes", format!("{what}: no result after 20 s")),
    };
    tokio::time::sleep(Duration::from_millis(2)).await;
    let accepted = net.drain();
    let accepted6 = net.drain6();
    let decoy_hits = net.drain_decoy();
    let calls = calls.borrow().clone();
    let how_given = how;
    // from here on a literal-host request that carries addresses is judged exactly like any request that carries
    // addresses; one that carries none (empty list) is an IP literal dialled directly: the decoy is its only address
    if how == How::PreSetLiteralHost && addrs.is_empty() {
        seen.ip_literal_cases += 1;
        if !calls.is_empty() {
            return fail("C19:resolver-consulted-for-ip-literal", format!("{what}: the host is an IP literal but the resolver was called with {calls:?}"));
        }
        return match res {
            Ok(conn) if decoy_hits == 1 && conn.io_ref().peer_addr().ok() == net.decoy.local_addr().ok() => Ok(()),
            Ok(_) => fail("C19:connected-to-wrong-address", format!("{what}: literal host, no carried addresses: decoy listener accepted {decoy_hits} connection(s)")),
            Err(e) => fail("C19:ip-literal-rejected", format!("{what}: {}", kind_of(&e))),
        };
    }
    if how == How::PreSetLiteralHost {
        seen.preset_with_literal_host += 1;
        if decoy_hits != 0 {
            return fail(
                "C19:resolved-request-re-resolved",
                format!("{what}: the request carried addresses {addrs:?} but the IP literal in its host string was dialled ({decoy_hits} connection(s) reached the decoy listener)"),
            );
        }
    }
    let how = if how == How::PreSetLiteralHost { How::PreSet } else { how };
    let _ = how_given;

    // ---- resolver precedence
    let carries = how == How::PreSet && !addrs.is_empty();
    match how {
        How::PreSet if carries => {
            seen.resolver_bypassed += 1;
            if !calls.is_empty() {
                return fail("C19:resolver-consulted-for-resolved-request", format!("{what}: the request already carried addresses but the resolver was called with {calls:?}"));
            }
        }
        How::IpLiteral => {
            seen.resolver_bypassed += 1;
            seen.ip_literal_cases += 1;
            if !calls.is_empty() {
                return fail("C19:resolver-consulted-for-ip-literal", format!("{what}: the host is an IP literal but the resolver was called with {calls:?}"));
            }
        }
        _ => {
            seen.resolver_used += 1;
            let want_host = if how == How::PreSet { ("pre.test".to_string(), 1) } else { ("svc.test".to_string(), 77) };
            if calls != vec![want_host.clone()] {
                return fail("C19:resolver-not-consulted-exactly-once", format!("{what}: resolver calls {calls:?}, expected exactly [{want_host:?}]"));
            }
        }
    }
    // ---- expected outcome
    if how == How::CustomErr {
        seen.resolver_errors += 1;
        return match res {
            Err(ConnectError::Resolver(_)) => Ok(()),
            other => fail("C19:wrong-error-for-resolver-failure", format!("{what}: got {:?}", other.as_ref().map(|_| "stream").map_err(kind_of))),
        };
    }
    if addrs.is_empty() {
        seen.no_records += 1;
        return match res {
            Err(ConnectError::NoRecords) => Ok(()),
            other => fail("C19:wrong-error-for-empty-answer", format!("{what}: got {:?}", other.as_ref().map(|_| "stream").map_err(kind_of))),
        };
    }
    let first_live = if local6 { list.iter().position(|e| *e == Entry::Live6) } else { list.iter().position(|e| *e == Entry::Live || *e == Entry::Live6) };
    if list.contains(&Entry::Live6) {
        seen.ipv6_lists += 1;
    }
    match (first_live, res) {
        (Some(k), Ok(conn)) => {
            seen.connects_ok += 1;
            if k > 0 {
                seen.fallbacks += 1;
            }
            let (io, _req) = conn.into_parts();
            let peer = io.peer_addr().ok();
            if peer != Some(addrs[k]) {
                return fail("C19:connected-to-wrong-address", format!("{what}: stream peer is {peer:?}, the first live address in order is {}", addrs[k]));
            }
            if local {
                let la = io.local_addr().ok().map(|a| a.ip());
                if la != Some(IpAddr::V4(Ipv4Addr::LOCALHOST)) {
                    return fail("C19:local-addr-ignored", format!("{what}: local address of the stream is {la:?}"));
                }
            }
            // accept counters: exactly one attempt on that listener, none on later live ones
            let chosen_is_v6 = list[k] == Entry::Live6;
            let live_index = if chosen_is_v6 { usize::MAX } else { list[..=k].iter().filter(|e| **e == Entry::Live).count() - 1 };
            let want6 = if chosen_is_v6 { 1 } else { 0 };
            if accepted6 != want6 {
                return fail(
                    if want6 == 0 { "C19:later-address-dialled" } else { "C19:attempt-count-wrong" },
                    format!("{what}: the IPv6 loopback listener accepted {accepted6} connection(s), expected {want6}"),
                );
            }
            for (i, n) in accepted.iter().enumerate() {
                let want = if i == live_index { 1 } else { 0 };
                if *n != want {
                    return fail(
                        if live_index != usize::MAX && i > live_index { "C19:later-address-dialled" } else { "C19:attempt-count-wrong" },
                        format!("{what}: live listener #{i} accepted {n} connection(s), expected {want} (connections accepted per live listener: {accepted:?})"),
                    );
                }
            }
            if list[k + 1..].contains(&Entry::Live) || list[k + 1..].contains(&Entry::Live6) {
                seen.later_live_untouched += 1;
            }
            drop(io);
            Ok(())
        }
        (Some(k), Err(e)) => fail("C19:failed-although-live-address", format!("{what}: error {} although address #{k} is live", kind_of(&e))),
        (None, Err(ConnectError::Io(e))) => {
            seen.all_dead += 1;
            if accepted.iter().any(|n| *n > 0) || accepted6 > 0 {
                return fail("C19:attempt-count-wrong", format!("{what}: live listeners not in the list accepted {accepted:?}"));
            }
            // the error must be the last attempt's
            let last = *list.last().unwrap();
            let kinds: Vec<Entry> = list.to_vec();
            if kinds.contains(&Entry::Refused) && kinds.contains(&Entry::Unreachable) && !local6 {
                seen.last_error_identified += 1;
                let is_refused = e.kind() == std::io::ErrorKind::ConnectionRefused;
                if (last == Entry::Refused) != is_refused {
                    return fail("C19:error-not-from-last-attempt", format!("{what}: returned I/O error {:?} ({e}); the last address in the list is {last:?}", e.kind()));
                }
            }
            Ok(())
        }
        (None, Err(e)) => fail("C19:wrong-error-variant-all-dead", format!("{what}: got {}", kind_of(&e))),
        (None, Ok(_)) => fail("C19:connected-without-live-address", format!("{what}: a stream was returned although no address is live")),
    }
}

async fn unit_cases(net: &Net, seen: &mut Seen) -> Vec<(String, Option<Fail>)> {
    let mut out = Vec::new();
    // TcpConnectorService with unresolved input
    let tcp = TcpConnector::default().service();
    let r = tcp.call(ConnectInfo::new("nowhere.test:80".to_string())).await;
    seen.unresolved += 1;
    out.push((
        "tcp/unresolved".to_string(),
        match r {
            Err(ConnectError::Unresolved) => None,
            other => Some(Fail { sig: "C19:unresolved-input-not-rejected".into(), desc: format!("TcpConnectorService with an unresolved request returned {:?}", other.as_ref().map(|_| "stream").map_err(kind_of)) }),
        },
    ));
    // ResolverService alone: pre-resolved request passes through unchanged, IP literal gets the request's port
    let calls = Rc::new(RefCell::new(Vec::new()));
    let rs = ResolverService::custom(LogResolver { answer: Ok(vec![]), calls: calls.clone() });
    let a = net.lives[0].local_addr().unwrap();
    let r = rs.call(ConnectInfo::new("x.test:5".to_string()).set_addrs(vec![a, net.refused[0]])).await;
    out.push((
        "resolver/passthrough".to_string(),
        match r {
            Ok(info) if info.addrs().collect::<Vec<_>>() == vec![a, net.refused[0]] && calls.borrow().is_empty() => None,
            Ok(info) => Some(Fail { sig: "C19:resolved-request-modified".into(), desc: format!("addresses after ResolverService: {:?}, resolver calls {:?}", info.addrs().collect::<Vec<_>>(), calls.borrow()) }),
            Err(e) => Some(Fail { sig: "C19:resolved-request-rejected".into(), desc: kind_of(&e) }),
        },
    ));
    let r = rs.call(ConnectInfo::new("10.9.9.9:1".to_string()).set_addrs(vec![net.refused[0], a])).await;
    out.push((
        "resolver/passthrough-literal-host".to_string(),
        match r {
            Ok(info) if info.addrs().collect::<Vec<_>>() == vec![net.refused[0], a] && calls.borrow().is_empty() => None,
            Ok(info) => Some(Fail { sig: "C19:resolved-request-modified".into(), desc: format!("host 10.9.9.9:1 with carried addresses: addresses after ResolverService: {:?}, resolver calls {:?}", info.addrs().collect::<Vec<_>>(), calls.borrow()) }),
            Err(e) => Some(Fail { sig: "C19:resolved-request-rejected".into(), desc: kind_of(&e) }),
        },
    ));
    for (host, want) in [("10.1.2.3:8443", "10.1.2.3:8443"), ("192.168.0.9:1", "192.168.0.9:1")] {
        let r = rs.call(ConnectInfo::new(host.to_string())).await;
        seen.ip_literal_cases += 1;
        out.push((
            format!("resolver/literal/{host}"),
            match r {
                Ok(info) if info.addrs().map(|a| a.to_string()).collect::<Vec<_>>() == vec![want.to_string()] && calls.borrow().is_empty() => None,
                Ok(info) => Some(Fail { sig: "C19:ip-literal-not-dialled-directly".into(), desc: format!("{host}: addresses {:?}, resolver calls {:?}", info.addrs().collect::<Vec<_>>(), calls.borrow()) }),
                Err(e) => Some(Fail { sig: "C19:ip-literal-rejected".into(), desc: format!("{host}: {}", kind_of(&e)) }),
            },
        ));
    }
    // literal host without port + set_port
    let r = rs.call(ConnectInfo::new("127.0.0.1".to_string()).set_port(4433)).await;
    out.push((
        "resolver/literal/set_port".to_string(),
        match r {
            Ok(info) if info.addrs().map(|a| a.to_string()).collect::<Vec<_>>() == vec!["127.0.0.1:4433".to_string()] => None,
            Ok(info) => Some(Fail { sig: "C19:ip-literal-wrong-port".into(), desc: format!("addresses {:?}", info.addrs().collect::<Vec<_>>()) }),
            Err(e) => Some(Fail { sig: "C19:ip-literal-rejected".into(), desc: kind_of(&e) }),
        },
    ));
    // empty answer
    let r = rs.call(ConnectInfo::new("empty.test:80".to_string())).await;
    seen.no_records += 1;
    out.push((
        "resolver/empty".to_string(),
        match r {
            Err(ConnectError::NoRecords) => None,
            other => Some(Fail { sig: "C19:wrong-error-for-empty-answer".into(), desc: format!("{:?}", other.as_ref().map(|_| "ok").map_err(kind_of)) }),
        },
    ));
    out
}

// ------------------------------------------------------------------ TLS connectors

#[derive(Clone, Copy, Debug, PartialEq, Eq)]
enum ServerCert {
    Good,
    Other,
    SelfSigned,
    Untrusted,
    /// trusted, valid for good.test and for the IP address 127.0.0.1
    IpGood,
}

#[derive(Clone, Copy, Debug, PartialEq, Eq)]
pub enum Conn {
    /// rustls 0.23
    Rustls,
    OpenSsl,
    Rustls20,
    Rustls21,
    Rustls22,
    NativeTls,
}

impl Conn {
    fn tag(self) -> &'static str {
        match self {
            Conn::Rustls => "rustls",
            Conn::OpenSsl => "openssl",
            Conn::Rustls20 => "rustls_0_20",
            Conn::Rustls21 => "rustls_0_21",
            Conn::Rustls22 => "rustls_0_22",
            Conn::NativeTls => "native_tls",
        }
    }
}

fn rustls20_client_config(pki: &Pki) -> Arc<tokio_rustls_023::rustls::ClientConfig> {
    use tokio_rustls_023::rustls as r;
    let mut roots = r::RootCertStore::empty();
    roots.add(&r::Certificate(pki.ca_der.clone())).unwrap();
    Arc::new(r::ClientConfig::builder().with_safe_defaults().with_root_certificates(roots).with_no_client_auth())
}

fn rustls21_client_config(pki: &Pki) -> Arc<tokio_rustls_024::rustls::ClientConfig> {
    use tokio_rustls_024::rustls as r;
    let mut roots = r::RootCertStore::empty();
    roots.add(&r::Certificate(pki.ca_der.clone())).unwrap();
    Arc::new(r::ClientConfig::builder().with_safe_defaults().with_root_certificates(roots).with_no_client_auth())
}

fn rustls22_client_config(pki: &Pki) -> Arc<tokio_rustls_025::rustls::ClientConfig> {
    use tokio_rustls_025::rustls as r;
    let mut roots = r::RootCertStore::empty();
    roots.add(r::pki_types::CertificateDer::from(pki.ca_der.clone())).unwrap();
    Arc::new(r::ClientConfig::builder().with_root_certificates(roots).with_no_client_auth())
}

fn native_tls_client(pki: &Pki) -> tokio_native_tls::native_tls::TlsConnector {
    use tokio_native_tls::native_tls as n;
    n::TlsConnector::builder().add_root_certificate(n::Certificate::from_pem(pki.ca_pem.as_bytes()).unwrap()).build().unwrap()
}

fn names() -> Vec<(String, bool)> {
    // (requested name, syntactically valid DNS name)
    vec![
        ("good.test".to_string(), true),
        ("other.test".to_string(), true),
        ("GOOD.test".to_string(), true),
        ("".to_string(), false),
        ("a".repeat(300), false),
        ("a b".to_string(), false),
        ("bad\0name.test".to_string(), false),
        ("127.0.0.1".to_string(), true),
        ("good.test.".to_string(), true),
        ("-x.test".to_string(), false),
    ]
}

fn identity<'a>(pki: &'a Pki, c: ServerCert) -> &'a Identity {
    match c {
        ServerCert::Good => &pki.good,
        ServerCert::Other => &pki.other,
        ServerCert::SelfSigned => &pki.self_signed,
        ServerCert::Untrusted => &pki.untrusted,
        ServerCert::IpGood => &pki.ip_good,
    }
}

async fn tls_case(conn: Conn, cert: ServerCert, name: &str, valid_syntax: bool, pki: Arc<Pki>, seed: u64, seen: &mut Seen) -> Result<(), Fail> {
    let (c_end, s_end) = pipe::pair();
    // rustls server with the chosen certificate: echoes what it receives
    let acceptor = tokio_rustls::TlsAcceptor::from(Arc::new(rustls_server_config(identity(&pki, cert))));
    let server = tokio::task::spawn_local(async move {
        if let Ok(mut s) = acceptor.accept(s_end).await {
            let mut buf = vec![0u8; 16 * 1024];
            loop {
                match s.read(&mut buf).await {
                    Ok(0) | Err(_) => break,
                    Ok(n) => {
                        if s.write_all(&buf[..n]).await.is_err() {
                            break;
                        }
                        let _ = s.flush().await;
                    }
                }
            }
        }
    });
    let what = format!("{conn:?} connector, server certificate {cert:?}, requested name {:?}", if name.len() > 40 { format!("{}… ({} bytes)", &name[..20], name.len()) } else { name.to_string() });
    let connection: Connection<String, Pipe> = Connection::new(name.to_string(), c_end);
    // certificate covers the name?
    let covers = match cert {
        ServerCert::Good => name.eq_ignore_ascii_case("good.test") || name.eq_ignore_ascii_case("good.test."),
        ServerCert::Other => name.eq_ignore_ascii_case("other.test"),
        // the rustls-0.20 adapter documents that it "can only handle hostname-based connections" (its webpki has no
        // iPAddress support): an IP name is an error there
        ServerCert::IpGood => name.eq_ignore_ascii_case("good.test") || name.eq_ignore_ascii_case("good.test.") || (name == "127.0.0.1" && conn != Conn::Rustls20),
        // right name, but self-signed / issued by a CA the client does not trust
        ServerCert::SelfSigned | ServerCert::Untrusted => false,
    };
    let trailing_dot = name.ends_with('.');
    let rustls_cfg = rustls_client_config(&pki);
    let ossl = openssl_client(&pki);
    let (cfg20, cfg21, cfg22, ntls) = (rustls20_client_config(&pki), rustls21_client_config(&pki), rustls22_client_config(&pki), native_tls_client(&pki));
    macro_rules! drive {
        ($svc:expr) => {{
            let svc = $svc;
            match svc.call(connection).await {
                Ok(c) => {
                    let (mut io, _) = c.into_parts();
                    echo_check(&mut io, seed).await
                }
                Err(e) => Err(e.to_string()),
            }
        }};
    }
    let name_owned = name.to_string();

    // call + await run inside a local task so that a panic anywhere in them is observed, not propagated
    let task = tokio::task::spawn_local(async move {
        match conn {
            Conn::Rustls => drive!(crustls::TlsConnector::service(rustls_cfg)),
            Conn::OpenSsl => drive!(cossl::TlsConnector::service(ossl)),
            Conn::Rustls20 => drive!(crustls20::TlsConnector::service(cfg20)),
            Conn::Rustls21 => drive!(crustls21::TlsConnector::service(cfg21)),
            Conn::Rustls22 => drive!(crustls22::TlsConnector::service(cfg22)),
            Conn::NativeTls => drive!(cntls::TlsConnector::new(ntls)),
        }
    });
    let fut = async move {
        match task.await {
            Ok(r) => Ok(r),
            Err(e) if e.is_panic() => {
                let p = e.into_panic();
                let msg = p.downcast_ref::<&str>().map(|s| s.to_string()).or_else(|| p.downcast_ref::<String>().cloned()).unwrap_or_default();
                Err(msg)
            }
            Err(_) => Ok(Err("cancelled".to_string())),
        }
    };
    let _ = name_owned;
    let res = tokio::time::timeout(Duration::from_secs(20), fut).await;
    server.abort();
    let res = match res {
        Ok(Ok(r)) => r,
        Ok(Err(panic_msg)) => {
            seen.tls_invalid_names += 1;
            return fail(
                &format!("C19:tls-connector-panics:{}", conn.tag()),
                format!("{what}: the connector panicked instead of returning an error: {panic_msg}"),
            );
        }
        Err(_) => return fail("C19:tls-connect-never-completes", format!("{what}: no result after 20 s")),
    };
    // a trailing dot is accepted by some verifiers and rejected by others: either outcome is fine for it
    let expect_ok = covers && valid_syntax;
    match (expect_ok, res) {
        (true, Ok(n)) => {
            seen.tls_ok += 1;
            seen.tls_ok_by[conn as usize] += 1;
            seen.tls_payload_bytes += n as u64;
            Ok(())
        }
        (false, Err(_)) => {
            seen.tls_rejected += 1;
            seen.tls_rejected_by[conn as usize] += 1;
            if !valid_syntax {
                seen.tls_invalid_names += 1;
            }
            Ok(())
        }
        (true, Err(e)) => {
            if trailing_dot {
                return Ok(());
            }
            fail("C19:tls-valid-certificate-rejected", format!("{what}: handshake failed although the certificate is valid for the name: {e}"))
        }
        (false, Ok(_)) => fail(
            if valid_syntax { "C19:tls-hostname-not-verified" } else { "C19:tls-invalid-name-accepted" },
            format!("{what}: the connector returned a working TLS stream although the certificate is not valid for the requested name"),
        ),
    }
}

async fn echo_check<S: tokio::io::AsyncRead + tokio::io::AsyncWrite + Unpin>(io: &mut S, seed: u64) -> Result<usize, String> {
    let mut r = Rng::new(seed);
    let n = *r.pick(&[1usize, 100, 5000, 16384, 30000]);
    let data = r.bytes(n);
    io.write_all(&data).await.map_err(|e| e.to_string())?;
    io.flush().await.map_err(|e| e.to_string())?;
    let mut got = vec![0u8; n];
    io.read_exact(&mut got).await.map_err(|e| e.to_string())?;
    if got != data {
        return Err("PAYLOAD-CORRUPTED".into());
    }
    Ok(n)
}

pub fn run(args: &Args, rep: &mut Report) {
    let pki = Arc::new(crate::certs::generate());
    let seed = args.seed;
    let thorough = args.thorough();
    let shard = (args.shard, args.nshards);
    // see c18.rs: valgrind 3.19 cannot follow ring's AES-GCM assembly; its layer skips the rustls 0.20-0.22 connectors
    let no_ring = args.extra_u64("noring", 0) == 1;
    let res = std::thread::spawn(move || {
        // real sockets: real clock
        let sys = actix_rt::System::new();
        sys.block_on(async move {
            let mut seen = Seen::default();
            let mut out: Vec<(String, Option<Fail>)> = Vec::new();
            let net = Net::new();
            let mut case_no = 0u64;
            // ---- all address lists of length 0..4 over {live, refused} (+ unreachable variants)
            let mut alphabet = vec![Entry::Live, Entry::Refused];
            if net.unreachable.is_some() {
                alphabet.push(Entry::Unreachable);
            }
            if net.live6.is_some() {
                alphabet.push(Entry::Live6);
            }
            let max_len = if thorough { 5usize } else { 4 };
            for len in 0..=max_len {
                let total = alphabet.len().pow(len as u32);
                for code in 0..total {
                    let mut x = code;
                    let list: Vec<Entry> = (0..len)
                        .map(|_| {
                            let e = alphabet[x % alphabet.len()];
                            x /= alphabet.len();
                            e
                        })
                        .collect();
                    // one IPv6 listener, four IPv4 ones
                    if list.iter().filter(|e| **e == Entry::Live6).count() > 1 || list.iter().filter(|e| **e == Entry::Live).count() > 4 || list.iter().filter(|e| **e == Entry::Refused).count() > 4 {
                        continue;
                    }
                    for how in [How::PreSet, How::PreSetLiteralHost, How::Custom, How::CustomErr, How::IpLiteral] {
                        if how == How::IpLiteral && !(list.len() == 1 && (list[0] == Entry::Live || list[0] == Entry::Refused)) {
                            continue;
                        }
                        if how == How::CustomErr && code % 7 != 0 {
                            continue;
                        }
                        for local in [0u8, 1, 2] {
                            // binding 127.0.0.1 and dialling the broadcast address gives yet another error: keep the two dead kinds apart
                            if local == 1 && (list.contains(&Entry::Unreachable) || list.contains(&Entry::Live6)) {
                                continue;
                            }
                            if local == 2 && (net.live6.is_none() || how == How::IpLiteral || how == How::PreSetLiteralHost || list.contains(&Entry::Unreachable)) {
                                continue;
                            }
                            case_no += 1;
                            if case_no % shard.1 != shard.0 {
                                continue;
                            }
                            let via_factory = case_no % 3 == 1;
                            let name = format!("tcp/{list:?}/{how:?}/local{local}/f{}", via_factory as u8);
                            let r = tcp_case(&net, &list, how, local, via_factory, &mut seen).await;
                            out.push((name, r.err()));
                        }
                    }
                }
            }
            if shard.0 == 0 {
                out.extend(unit_cases(&net, &mut seen).await);
            }
            // ---- TLS connectors over the in-memory duplex
            let reps = if thorough { 60 } else { 2 };
            for rep_no in 0..reps {
                for conn in [Conn::Rustls, Conn::OpenSsl, Conn::Rustls20, Conn::Rustls21, Conn::Rustls22, Conn::NativeTls] {
                    if no_ring && matches!(conn, Conn::Rustls20 | Conn::Rustls21 | Conn::Rustls22) {
                        continue;
                    }
                    // the four structurally parallel adapters: a quarter of the repetitions in the thorough tier
                    if !matches!(conn, Conn::Rustls | Conn::OpenSsl) && thorough && rep_no >= 15 {
                        continue;
                    }
                    for cert in [ServerCert::Good, ServerCert::Other, ServerCert::SelfSigned, ServerCert::Untrusted, ServerCert::IpGood] {
                        for (name, valid) in names() {
                            case_no += 1;
                            if case_no % shard.1 != shard.0 {
                                continue;
                            }
                            let label = format!("tls/{conn:?}/{cert:?}/{}", if name.len() > 30 { format!("len{}", name.len()) } else { name.escape_default().to_string() });
                            let r = tls_case(conn, cert, &name, valid, pki.clone(), seed ^ case_no ^ rep_no, &mut seen).await;
                            out.push((label, r.err()));
                        }
                    }
                }
            }
            (out, seen)
        })
    })
    .join();
    let seen = match res {
        Ok((out, seen)) => {
            for (name, f) in out {
                rep.evaluations += 1;
                match f {
                    None => rep.nontrivial(fnv_str(&name)),
                    Some(f) => rep.violation(f.sig, f.desc, json!({"prop": "C19", "case": name})),
                }
                if rep.samples.len() < 6 && rep.evaluations % 41 == 1 {
                    rep.samples.push(json!({"case": name}));
                }
            }
            seen
        }
        Err(_) => {
            rep.violation("C19:panic", "the scenario thread panicked", json!({"prop": "C19"}));
            Seen::default()
        }
    };
    let _ = Rng::new(0);
    rep.exhaustive = true;
    rep.rule = "TCP part: every address list of length 0..4 (0..5 thorough) over {live loopback listener, live IPv6 loopback listener (at most one per list), closed port (refused), broadcast address (network unreachable, when the sandbox reports it immediately)} x {addresses pre-set on the request (set_addrs / with_addr), custom resolver answering with the list, custom resolver failing, IPv4-literal host} x {no local address, local_addr 127.0.0.1, local_addr ::1 (IPv4 entries then fail with an address-family error and the fallback must go on)} through the real ConnectorService, obtained from Connector::service or from its ServiceFactory; \
                oracle: resolver call log (never consulted for pre-resolved requests and IP literals, exactly once with (host, port) otherwise), error variant (NoRecords, Resolver, Unresolved, Io), peer address = first live address in order, accept counters of all live listeners (exactly one attempt on the chosen one, none on later ones), local address honoured, and with both dead kinds present the returned I/O error kind is the last attempt's; plus ResolverService / TcpConnectorService unit cases. \
                TLS part: rustls-0.23, OpenSSL, rustls-0.20 / 0.21 / 0.22 and native-tls connector services over an in-memory duplex against a rustls server presenting {leaf for good.test from the trusted CA, leaf for other.test, self-signed, leaf from an untrusted CA} and {trusted leaf with DNS name good.test and iPAddress 127.0.0.1} x requested names {good.test, other.test, GOOD.test, empty, 300 chars, 'a b', embedded NUL, 127.0.0.1, good.test., -x.test}: success iff the chain is trusted and the certificate covers a syntactically valid name (then a random payload is echoed and compared), otherwise an error is returned; a panic out of call/poll is a violation. Enumerated completely (exhaustive over the stated lists); distinct = distinct case label."
        .into();
    rep.add("obs_connects_ok", seen.connects_ok);
    rep.add("obs_fallbacks_past_dead_addresses", seen.fallbacks);
    rep.add("obs_all_dead_lists", seen.all_dead);
    rep.add("obs_last_error_identified", seen.last_error_identified);
    rep.add("obs_resolver_bypassed", seen.resolver_bypassed);
    rep.add("obs_resolver_used", seen.resolver_used);
    rep.add("obs_no_records", seen.no_records);
    rep.add("obs_resolver_errors", seen.resolver_errors);
    rep.add("obs_unresolved_inputs", seen.unresolved);
    rep.add("obs_local_addr_cases", seen.local_addr_cases);
    rep.add("obs_ip_literal_cases", seen.ip_literal_cases);
    rep.add("obs_later_live_listener_untouched", seen.later_live_untouched);
    rep.add("obs_carried_addresses_with_ip_literal_host", seen.preset_with_literal_host);
    rep.add("obs_lists_with_ipv6_loopback_address", seen.ipv6_lists);
    rep.add("obs_local_addr_ipv6_cases", seen.local_addr6_cases);
    rep.add("obs_connector_services_from_factory", seen.services_from_factory);
    rep.add("obs_tls_handshakes_ok", seen.tls_ok);
    rep.add("obs_tls_rejected", seen.tls_rejected);
    rep.add("obs_tls_invalid_names", seen.tls_invalid_names);
    rep.add("obs_tls_payload_bytes", seen.tls_payload_bytes);
    for c in [Conn::Rustls20, Conn::Rustls21, Conn::Rustls22, Conn::NativeTls] {
        rep.add(&format!("obs_tls_handshakes_ok_{}", c.tag()), seen.tls_ok_by[c as usize]);
        rep.add(&format!("obs_tls_rejected_{}", c.tag()), seen.tls_rejected_by[c as usize]);
    }
}
