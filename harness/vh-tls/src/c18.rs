//! C18 — TLS acceptors bound handshake time and concurrency and carry data intact.
//!
//! Real `actix_tls::accept::{rustls_0_23, openssl, rustls_0_20, rustls_0_21, rustls_0_22, native_tls}` acceptor services over an in-memory duplex, under Tokio's
//! paused clock (virtual time): completion instants are exact, so the timing rules are decided in logical time.

use std::{
    future::Future,
    pin::Pin,
    sync::Arc,
    task::{Context, Poll},
    time::Duration,
};

use actix_service::{Service, ServiceFactory};
use actix_tls::accept::{
    max_concurrent_tls_connect, native_tls as antls, openssl as aossl, rustls_0_20 as arustls20, rustls_0_21 as arustls21, rustls_0_22 as arustls22, rustls_0_23 as arustls, TlsError,
};
use tokio::io::{AsyncRead, AsyncReadExt, AsyncWrite, AsyncWriteExt};
use tokio_rustls::rustls;
use vh_core::{exec::new_waker, fnv_str, json, Args, Report, Rng, Value};

use crate::{
    certs::{Identity, Pki},
    pipe::{self, Cut, Pipe},
};

pub trait Rw: AsyncRead + AsyncWrite + Unpin {}
impl<T: AsyncRead + AsyncWrite + Unpin> Rw for T {}
type BoxRw = Box<dyn Rw>;

#[derive(Clone, Copy, Debug, PartialEq, Eq)]
pub enum Kind {
    /// rustls 0.23
    Rustls,
    OpenSsl,
    Rustls20,
    Rustls21,
    Rustls22,
    NativeTls,
}

/// the two adapters every scenario list runs against in full, and the four structurally parallel ones (older rustls
/// generations, native-tls) that get the same lists (quick: a thinned repetition count)
pub const MAIN_KINDS: [Kind; 2] = [Kind::Rustls, Kind::OpenSsl];
pub const OTHER_KINDS: [Kind; 4] = [Kind::Rustls20, Kind::Rustls21, Kind::Rustls22, Kind::NativeTls];

#[derive(Clone, Copy, Debug, PartialEq, Eq)]
pub enum Client {
    CompleteRustls,
    CompleteOpenSsl,
    /// rustls client whose bytes stop reaching the server after n bytes (connection stays open)
    StallAfter(usize),
    /// ... and the connection is closed after n bytes
    CloseAfter(usize),
    GarbageThenIdle,
    GarbageThenClose,
    ImmediateDisconnect,
    /// never sends anything
    Silent,
}

#[derive(Clone, Copy, Debug, PartialEq, Eq)]
pub enum Outcome {
    Stream,
    TlsError,
    Timeout,
}

pub fn rustls_server_config(id: &Identity) -> rustls::ServerConfig {
    let cert = rustls::pki_types::CertificateDer::from(id.cert_der.clone());
    let key = rustls::pki_types::PrivateKeyDer::try_from(id.key_der.clone()).unwrap();
    rustls::ServerConfig::builder().with_no_client_auth().with_single_cert(vec![cert], key).unwrap()
}

pub fn rustls20_server_config(id: &Identity) -> tokio_rustls_023::rustls::ServerConfig {
    use tokio_rustls_023::rustls as r;
    r::ServerConfig::builder().with_safe_defaults().with_no_client_auth().with_single_cert(vec![r::Certificate(id.cert_der.clone())], r::PrivateKey(id.key_der.clone())).unwrap()
}

pub fn rustls21_server_config(id: &Identity) -> tokio_rustls_024::rustls::ServerConfig {
    use tokio_rustls_024::rustls as r;
    r::ServerConfig::builder().with_safe_defaults().with_no_client_auth().with_single_cert(vec![r::Certificate(id.cert_der.clone())], r::PrivateKey(id.key_der.clone())).unwrap()
}

pub fn rustls22_server_config(id: &Identity) -> tokio_rustls_025::rustls::ServerConfig {
    use tokio_rustls_025::rustls as r;
    let cert = r::pki_types::CertificateDer::from(id.cert_der.clone());
    let key = r::pki_types::PrivateKeyDer::try_from(id.key_der.clone()).unwrap();
    r::ServerConfig::builder().with_no_client_auth().with_single_cert(vec![cert], key).unwrap()
}

pub fn native_tls_acceptor(id: &Identity) -> tokio_native_tls::TlsAcceptor {
    use tokio_native_tls::native_tls as n;
    let ident = n::Identity::from_pkcs8(id.cert_pem.as_bytes(), id.key_pem.as_bytes()).unwrap();
    tokio_native_tls::TlsAcceptor::from(n::TlsAcceptor::new(ident).unwrap())
}

pub fn openssl_acceptor(id: &Identity) -> openssl::ssl::SslAcceptor {
    use openssl::{pkey::PKey, ssl, x509::X509};
    let mut b = ssl::SslAcceptor::mozilla_intermediate_v5(ssl::SslMethod::tls()).unwrap();
    b.set_certificate(&X509::from_pem(id.cert_pem.as_bytes()).unwrap()).unwrap();
    b.set_private_key(&PKey::private_key_from_pem(id.key_pem.as_bytes()).unwrap()).unwrap();
    b.build()
}

pub fn rustls_client_config(pki: &Pki) -> Arc<rustls::ClientConfig> {
    let mut roots = rustls::RootCertStore::empty();
    roots.add(rustls::pki_types::CertificateDer::from(pki.ca_der.clone())).unwrap();
    Arc::new(rustls::ClientConfig::builder().with_root_certificates(roots).with_no_client_auth())
}

pub fn openssl_client(pki: &Pki) -> openssl::ssl::SslConnector {
    use openssl::{ssl, x509::X509};
    let mut b = ssl::SslConnector::builder(ssl::SslMethod::tls()).unwrap();
    b.cert_store_mut().add_cert(X509::from_pem(pki.ca_pem.as_bytes()).unwrap()).unwrap();
    b.build()
}

/// The acceptor service under test, type-erased over the implementations.
pub enum Svc {
    R(arustls::AcceptorService),
    O(aossl::AcceptorService),
    R20(arustls20::AcceptorService),
    R21(arustls21::AcceptorService),
    R22(arustls22::AcceptorService),
    N(antls::AcceptorService),
}

macro_rules! each_svc {
    ($self:expr, $s:ident => $body:expr) => {
        match $self {
            Svc::R($s) => $body,
            Svc::O($s) => $body,
            Svc::R20($s) => $body,
            Svc::R21($s) => $body,
            Svc::R22($s) => $body,
            Svc::N($s) => $body,
        }
    };
}

macro_rules! build_svc {
    ($variant:ident, $acceptor:expr, $timeout:expr, $via_clone:expr) => {{
        let mut a = $acceptor;
        a.set_handshake_timeout($timeout);
        let a = if $via_clone { a.clone() } else { a };
        Svc::$variant(ServiceFactory::<Pipe>::new_service(&a, ()).await.unwrap())
    }};
}

impl Svc {
    /// `via_clone`: the service is built by a clone of the configured acceptor (what a multi-worker server does with
    /// its factories); the configuration, handshake timeout included, travels with the clone.
    pub async fn new(kind: Kind, pki: &Pki, timeout: Duration, via_clone: bool) -> Svc {
        match kind {
            Kind::Rustls => build_svc!(R, arustls::Acceptor::new(rustls_server_config(&pki.good)), timeout, via_clone),
            Kind::OpenSsl => build_svc!(O, aossl::Acceptor::new(openssl_acceptor(&pki.good)), timeout, via_clone),
            Kind::Rustls20 => build_svc!(R20, arustls20::Acceptor::new(rustls20_server_config(&pki.good)), timeout, via_clone),
            Kind::Rustls21 => build_svc!(R21, arustls21::Acceptor::new(rustls21_server_config(&pki.good)), timeout, via_clone),
            Kind::Rustls22 => build_svc!(R22, arustls22::Acceptor::new(rustls22_server_config(&pki.good)), timeout, via_clone),
            Kind::NativeTls => build_svc!(N, antls::Acceptor::new(native_tls_acceptor(&pki.good)), timeout, via_clone),
        }
    }

    pub fn poll_ready(&self, cx: &mut Context<'_>) -> Poll<Result<(), ()>> {
        each_svc!(self, s => Service::<Pipe>::poll_ready(s, cx).map_err(|_| ()))
    }

    pub fn accept(&self, io: Pipe) -> Pin<Box<dyn Future<Output = (Outcome, Option<BoxRw>)>>> {
        each_svc!(self, s => {
            let f = s.call(io);
            Box::pin(async move {
                match f.await {
                    Ok(st) => (Outcome::Stream, Some(Box::new(st) as BoxRw)),
                    Err(TlsError::Timeout) => (Outcome::Timeout, None),
                    Err(_) => (Outcome::TlsError, None),
                }
            })
        })
    }
}

/// Runs a client behaviour on `io`; resolves to the established client stream for complete clients.
async fn run_client(client: Client, io: Pipe, pki: Arc<Pki>, seed: u64) -> Option<BoxRw> {
    match client {
        Client::CompleteRustls | Client::StallAfter(_) | Client::CloseAfter(_) => {
            let c = tokio_rustls::TlsConnector::from(rustls_client_config(&pki));
            let name = rustls::pki_types::ServerName::try_from("good.test").unwrap();
            match c.connect(name, io).await {
                Ok(s) => Some(Box::new(s) as BoxRw),
                Err(_) => {
                    // keep the (relay side of the) connection as it is: stalled relays stay open
                    std::future::pending::<()>().await;
                    None
                }
            }
        }
        Client::CompleteOpenSsl => {
            let conn = openssl_client(&pki);
            let ssl = conn.configure().unwrap().into_ssl("good.test").unwrap();
            let mut s = tokio_openssl::SslStream::new(ssl, io).unwrap();
            match Pin::new(&mut s).connect().await {
                Ok(()) => Some(Box::new(s) as BoxRw),
                Err(_) => None,
            }
        }
        Client::GarbageThenIdle | Client::GarbageThenClose => {
            let mut io = io;
            let mut r = Rng::new(seed);
            let n = 16 + r.usize(200);
            let mut junk = r.bytes(n);
            junk[0] = b'G'; // not a TLS record type
            let _ = io.write_all(&junk).await;
            if client == Client::GarbageThenIdle {
                std::future::pending::<()>().await;
            }
            drop(io);
            None
        }
        Client::ImmediateDisconnect => {
            drop(io);
            None
        }
        Client::Silent => {
            let _io = io;
            std::future::pending::<()>().await;
            None
        }
    }
}

pub struct Fail {
    pub sig: String,
    pub desc: String,
}

#[derive(Default)]
pub struct Seen {
    pub handshakes_ok: u64,
    pub timeouts_exact: u64,
    pub tls_errors: u64,
    pub stall_points: u64,
    pub close_points: u64,
    pub payload_bytes: u64,
    pub payload_exchanges: u64,
    pub gate_ready: u64,
    pub gate_pending: u64,
    pub gate_wakes: u64,
    pub gate_scenarios: u64,
    pub max_concurrent: u64,
    pub acceptors_built_from_clone: u64,
    pub small_transport_buffers: u64,
    /// per adapter (index = Kind as usize): handshakes completed, exact timeouts, gate scenarios
    pub kind_ok: [u64; 6],
    pub kind_timeouts: [u64; 6],
    pub kind_gates: [u64; 6],
}

async fn exchange(server: &mut BoxRw, client: &mut BoxRw, r: &mut Rng, seen: &mut Seen) -> Result<(), Fail> {
    for dir in 0..2 {
        let n = *r.pick(&[0usize, 1, 100, 4096, 16384, 16385, 40000, 65536]);
        let n = if r.chance(1, 3) { r.usize(65537) } else { n };
        let data = r.bytes(n);
        let (w, rd): (&mut BoxRw, &mut BoxRw) = if dir == 0 { (&mut *client, &mut *server) } else { (&mut *server, &mut *client) };
        let d2 = data.clone();
        let mut splits = Rng::new(r.next_u64());
        let write = async move {
            let mut off = 0;
            while off < d2.len() {
                let k = (1 + splits.usize(9000)).min(d2.len() - off);
                if splits.chance(1, 3) {
                    // scatter/gather form of the same write
                    let end = off + k;
                    let mut at = off;
                    while at < end {
                        let mid = at + (end - at) / 2;
                        let bufs = [std::io::IoSlice::new(&d2[at..mid]), std::io::IoSlice::new(&d2[mid..end])];
                        let n = w.write_vectored(&bufs).await?;
                        if n == 0 {
                            return Err(std::io::Error::new(std::io::ErrorKind::WriteZero, "write_vectored returned 0"));
                        }
                        at += n;
                    }
                } else {
                    w.write_all(&d2[off..off + k]).await?;
                }
                off += k;
            }
            w.flush().await
        };
        let read = async move {
            let mut got = vec![0u8; n];
            rd.read_exact(&mut got).await.map(|_| got)
        };
        let which = if dir == 0 { "client->server" } else { "server->client" };
        // virtual time: the timeout fires only when both sides are idle for good
        let (wr, got) = match tokio::time::timeout(Duration::from_secs(60), async { tokio::join!(write, read) }).await {
            Ok(x) => x,
            Err(_) => {
                return Err(Fail {
                    sig: "C18:payload:never-arrives".into(),
                    desc: format!("{which}: {n} bytes were written and flushed (or are being written) but the reader is still waiting for them with both sides idle"),
                })
            }
        };
        if let Err(e) = wr {
            return Err(Fail { sig: "C18:payload:write-error".into(), desc: format!("{which}: write of {n} bytes failed: {e}") });
        }
        match got {
            Ok(g) if g == data => {
                seen.payload_bytes += n as u64;
                seen.payload_exchanges += 1;
            }
            Ok(g) => {
                let k = g.iter().zip(&data).take_while(|(a, b)| a == b).count();
                return Err(Fail { sig: "C18:payload:corrupted".into(), desc: format!("{which}: {n} bytes sent, first difference at byte {k}") });
            }
            Err(e) => return Err(Fail { sig: "C18:payload:read-error".into(), desc: format!("{which}: reading {n} bytes failed: {e}") }),
        }
    }
    Ok(())
}

/// One accept call against one client behaviour. Returns the c->s chunk sizes seen by the relay (for complete clients).
pub async fn accept_case(kind: Kind, client: Client, timeout: Duration, pki: Arc<Pki>, seed: u64, seen: &mut Seen) -> Result<Vec<usize>, Fail> {
    let via_clone = Rng::new(seed ^ 0xC10E).next_u64() & 1 == 1;
    if via_clone {
        seen.acceptors_built_from_clone += 1;
    }
    let svc = Svc::new(kind, &pki, timeout, via_clone).await;
    let cut = match client {
        Client::StallAfter(n) => Cut::StallAfter(n),
        Client::CloseAfter(n) => Cut::CloseAfter(n),
        _ => Cut::None,
    };
    // complete clients exchange payloads afterwards: sometimes over a server-side transport with a small buffer, so
    // that the server's writes see Pending from the transport in the middle of a record and the tail has to be
    // pushed out by flush
    let server_cap = if matches!(client, Client::CompleteRustls | Client::CompleteOpenSsl) { *Rng::new(seed ^ 0xCA9).pick(&[600usize, 3000, 256 * 1024]) } else { 256 * 1024 };
    if server_cap < 256 * 1024 {
        seen.small_transport_buffers += 1;
    }
    let (c_end, s_end, log) = pipe::relayed_cap(cut, server_cap);
    // Service contract: poll_ready before call
    let (w, _) = new_waker(0);
    if !matches!(svc.poll_ready(&mut Context::from_waker(&w)), Poll::Ready(Ok(()))) {
        return Err(Fail { sig: "C18:gate:not-ready-when-idle".into(), desc: "poll_ready is not Ready although no handshake is in progress".into() });
    }
    let t0 = tokio::time::Instant::now();
    let acc = svc.accept(s_end);
    let cl = tokio::task::spawn_local(run_client(client, c_end, pki.clone(), seed));
    let res = tokio::time::timeout(timeout + Duration::from_millis(500), acc).await;
    let el = t0.elapsed();
    let what = format!("{kind:?} acceptor, client {client:?}, handshake_timeout {} ms", timeout.as_millis());
    let (outcome, server_stream) = match res {
        Err(_) => {
            return Err(Fail {
                sig: "C18:accept-pending-after-timeout".into(),
                desc: format!("{what}: the accept future is still pending {} ms (virtual) after the call", el.as_millis()),
            })
        }
        Ok(x) => x,
    };
    if el > timeout + Duration::from_millis(2) {
        return Err(Fail {
            sig: "C18:resolved-later-than-timeout".into(),
            desc: format!("{what}: resolved with {outcome:?} after {} ms (virtual)", el.as_millis()),
        });
    }
    match client {
        Client::CompleteRustls | Client::CompleteOpenSsl => {
            if outcome != Outcome::Stream {
                return Err(Fail { sig: "C18:complete-handshake-rejected".into(), desc: format!("{what}: outcome {outcome:?} after {} ms", el.as_millis()) });
            }
            seen.handshakes_ok += 1;
            seen.kind_ok[kind as usize] += 1;
            let mut server = server_stream.unwrap();
            let mut client_stream = match cl.await {
                Ok(Some(c)) => c,
                _ => return Err(Fail { sig: "C18:client-handshake-failed".into(), desc: format!("{what}: the acceptor returned a stream but the client's handshake failed") }),
            };
            let mut r = Rng::new(seed ^ 0x7a);
            exchange(&mut server, &mut client_stream, &mut r, seen).await.map_err(|f| Fail { sig: f.sig, desc: format!("{what}: {}", f.desc) })?;
        }
        Client::StallAfter(_) | Client::Silent => {
            cl.abort();
            if outcome != Outcome::Timeout {
                return Err(Fail {
                    sig: "C18:stalled-handshake-wrong-outcome".into(),
                    desc: format!("{what}: the client stalled, expected TlsError::Timeout, got {outcome:?} after {} ms", el.as_millis()),
                });
            }
            if el < timeout {
                return Err(Fail { sig: "C18:timeout-fired-early".into(), desc: format!("{what}: Timeout after only {} ms", el.as_millis()) });
            }
            seen.timeouts_exact += 1;
            seen.kind_timeouts[kind as usize] += 1;
            if matches!(client, Client::StallAfter(_)) {
                seen.stall_points += 1;
            }
        }
        _ => {
            cl.abort();
            match outcome {
                Outcome::Stream => {
                    return Err(Fail { sig: "C18:stream-from-broken-handshake".into(), desc: format!("{what}: the acceptor returned a TLS stream") });
                }
                Outcome::TlsError => seen.tls_errors += 1,
                Outcome::Timeout => {
                    if el < timeout {
                        return Err(Fail { sig: "C18:timeout-fired-early".into(), desc: format!("{what}: Timeout after only {} ms", el.as_millis()) });
                    }
                    seen.timeouts_exact += 1
                }
            }
            if matches!(client, Client::CloseAfter(_)) {
                seen.close_points += 1;
            }
        }
    }
    let chunks = log.borrow().c2s_chunks.clone();
    Ok(chunks)
}

/// Concurrency gate: runs on a fresh thread (the per-thread counter takes the limit at first use).
pub fn gate_case(kind: Kind, limit: usize, ops_seed: u64, pki: Arc<Pki>) -> Result<(u64, u64, u64, u64), Fail> {
    let h = std::thread::spawn(move || {
        max_concurrent_tls_connect(limit);
        let sys = actix_rt::System::with_tokio_rt(|| tokio::runtime::Builder::new_current_thread().enable_all().start_paused(true).build().unwrap());
        sys.block_on(async move {
            let timeout = Duration::from_secs(5);
            // two acceptor services on this thread (two TLS listeners of one worker): the maximum is per thread, so they
            // share one budget; every step addresses one of them at random
            let svcs = [Svc::new(kind, &pki, timeout, ops_seed & 1 == 1).await, Svc::new(kind, &pki, timeout, ops_seed & 2 == 2).await];
            let two = ops_seed % 3 != 0;
            let mut r = Rng::new(ops_seed);
            let mut inflight: Vec<tokio::task::JoinHandle<(Outcome, Option<BoxRw>)>> = Vec::new();
            let mut parked: Option<Arc<vh_core::exec::WakeRec>> = None;
            let (mut ready, mut pending, mut wakes, mut maxc) = (0u64, 0u64, 0u64, 0u64);
            let mut keep_alive = Vec::new();
            for step in 0..40u64 {
                let which = if two { r.usize(2) } else { 0 };
                let svc = &svcs[which];
                let what = format!("{kind:?} acceptor service #{which} of {}, limit {limit}, step {step}, {} handshakes in progress on this thread", if two { 2 } else { 1 }, inflight.len());
                if inflight.len() < 5 && r.chance(2, 3) {
                    // poll_ready, then call if ready
                    let (w, rec) = new_waker(step);
                    let got = svc.poll_ready(&mut Context::from_waker(&w));
                    let want_ready = inflight.len() < limit;
                    match (got, want_ready) {
                        (Poll::Ready(Ok(())), true) => {
                            ready += 1;
                            let (c_end, s_end) = pipe::pair();
                            keep_alive.push(c_end); // the client never speaks: the handshake stays in progress
                            inflight.push(tokio::task::spawn_local(svc.accept(s_end)));
                            maxc = maxc.max(inflight.len() as u64);
                            // let the accept future start
                            tokio::task::yield_now().await;
                        }
                        (Poll::Pending, false) => {
                            pending += 1;
                            parked = Some(rec);
                        }
                        (Poll::Ready(Ok(())), false) => {
                            return Err(Fail { sig: "C18:gate:ready-at-limit".into(), desc: format!("{what}: poll_ready returned Ready although the maximum is reached") })
                        }
                        (Poll::Pending, true) => {
                            return Err(Fail { sig: "C18:gate:pending-below-limit".into(), desc: format!("{what}: poll_ready returned Pending below the maximum") })
                        }
                        (Poll::Ready(Err(())), _) => return Err(Fail { sig: "C18:gate:error".into(), desc: format!("{what}: poll_ready returned an error") }),
                    }
                } else if !inflight.is_empty() {
                    // one handshake ends (its future is dropped)
                    let was_full = inflight.len() == limit;
                    let k = r.usize(inflight.len());
                    let h = inflight.swap_remove(k);
                    h.abort();
                    let _ = h.await;
                    if was_full {
                        if let Some(rec) = parked.take() {
                            if rec.wakes() == 0 {
                                return Err(Fail {
                                    sig: "C18:gate:no-wakeup-when-handshake-ends".into(),
                                    desc: format!("{what}: a handshake ended, bringing the count below the maximum, but the task parked in poll_ready was not woken"),
                                });
                            }
                            wakes += 1;
                        }
                    }
                }
            }
            // everything left runs into the handshake timeout at the same virtual instant
            let t0 = tokio::time::Instant::now();
            for h in inflight {
                match tokio::time::timeout(timeout + Duration::from_millis(500), h).await {
                    Ok(Ok((Outcome::Timeout, _))) => {}
                    Ok(Ok((o, _))) => return Err(Fail { sig: "C18:stalled-handshake-wrong-outcome".into(), desc: format!("{kind:?}: silent client, outcome {o:?}") }),
                    Ok(Err(_)) => {}
                    Err(_) => {
                        return Err(Fail {
                            sig: "C18:accept-pending-after-timeout".into(),
                            desc: format!("{kind:?} acceptor, limit {limit}: a handshake is still pending {} ms after the others timed out", t0.elapsed().as_millis()),
                        })
                    }
                }
            }
            drop(keep_alive);
            Ok((ready, pending, wakes, maxc))
        })
    });
    match h.join() {
        Ok(r) => r,
        Err(_) => Err(Fail { sig: "C18:panic".into(), desc: "gate scenario panicked".into() }),
    }
}

pub fn run(args: &Args, rep: &mut Report) {
    let pki = Arc::new(crate::certs::generate());
    let mut seen = Seen::default();
    let thorough = args.thorough();

    if let Some(p) = &args.replay {
        let v: Value = serde_json::from_str(&std::fs::read_to_string(p).expect("replay file")).unwrap();
        rep.note(format!("replay of {}: the scenario list is deterministic under virtual time; re-running the full quick list", v["signature"]));
    }

    // ---- accept cases (virtual time), all on one system thread
    let timeouts: Vec<Duration> = [100u64, 700, 3000, 5000].iter().map(|ms| Duration::from_millis(*ms)).collect();
    let pki2 = pki.clone();
    let seed = args.seed;
    let shard = (args.shard, args.nshards);
    // valgrind 3.19 does not model the AES-GCM assembly of *ring* (the crypto of rustls 0.20-0.22): everything those
    // servers encrypt counts as uninitialised and the peer's tag comparison is reported. The valgrind layer therefore
    // leaves the three ring-based adapters out (native layer and ASan layer drive them).
    let no_ring = args.extra_u64("noring", 0) == 1;
    let res = std::thread::spawn(move || {
        let sys = actix_rt::System::with_tokio_rt(|| tokio::runtime::Builder::new_current_thread().enable_all().start_paused(true).build().unwrap());
        sys.block_on(async move {
            let mut seen = Seen::default();
            let mut out: Vec<(String, Option<Fail>)> = Vec::new();
            let mut case_no = 0u64;
            for kind in MAIN_KINDS.into_iter().chain(OTHER_KINDS) {
                if no_ring && matches!(kind, Kind::Rustls20 | Kind::Rustls21 | Kind::Rustls22) {
                    continue;
                }
                let main = MAIN_KINDS.contains(&kind);
                // 1. learn the byte positions of a successful handshake
                let chunks = match accept_case(kind, Client::CompleteRustls, Duration::from_secs(3), pki2.clone(), seed, &mut seen).await {
                    Ok(c) => c,
                    Err(f) => {
                        out.push((format!("{kind:?}/learn"), Some(f)));
                        continue;
                    }
                };
                let mut points: Vec<usize> = vec![0, 1, 5];
                let mut acc = 0;
                for c in &chunks {
                    // handshake flights only: application data comes later in the trace
                    if acc > 4096 {
                        break;
                    }
                    points.push(acc + c / 2);
                    acc += c;
                    points.push(acc.saturating_sub(1));
                    points.push(acc);
                }
                points.sort();
                points.dedup();
                let hs_bytes = chunks.iter().take_while(|c| **c < 2000).take(2).sum::<usize>().max(1);
                points.retain(|p| *p < hs_bytes);
                let mut clients: Vec<Client> = vec![
                    Client::CompleteRustls,
                    Client::CompleteOpenSsl,
                    Client::GarbageThenIdle,
                    Client::GarbageThenClose,
                    Client::ImmediateDisconnect,
                    Client::Silent,
                ];
                for p in &points {
                    clients.push(Client::StallAfter(*p));
                    clients.push(Client::CloseAfter(*p));
                }
                let reps = match (thorough, main) {
                    (true, true) => 400,
                    (true, false) => 100,
                    (false, true) => 8,
                    (false, false) => 3,
                };
                for rep_no in 0..reps {
                    for t in &timeouts {
                        for c in &clients {
                            case_no += 1;
                            if case_no % shard.1 != shard.0 {
                                continue;
                            }
                            // complete clients are repeated with different payloads; broken ones need no repetition beyond 2
                            if rep_no >= 2 && !matches!(c, Client::CompleteRustls | Client::CompleteOpenSsl) {
                                continue;
                            }
                            let name = format!("{kind:?}/{c:?}/{}ms", t.as_millis());
                            let r = accept_case(kind, *c, *t, pki2.clone(), seed ^ case_no, &mut seen).await;
                            out.push((name, r.err()));
                        }
                    }
                }
            }
            (out, seen)
        })
    })
    .join();
    match res {
        Ok((out, s)) => {
            seen = s;
            for (name, f) in out {
                rep.evaluations += 1;
                match f {
                    None => rep.nontrivial(fnv_str(&name)),
                    Some(f) => rep.violation(f.sig, f.desc, json!({"prop": "C18", "case": name})),
                }
                if rep.samples.len() < 6 && rep.evaluations % 17 == 1 {
                    rep.samples.push(json!({"case": name}));
                }
            }
        }
        Err(_) => rep.violation("C18:panic", "the accept scenario thread panicked", json!({"prop": "C18"})),
    }

    // ---- concurrency gate: a fresh thread per (kind, limit, op sequence)
    let n_gate = if thorough { 1500 } else { 16 };
    let n_gate_other = if thorough { 400 } else { 6 };
    let mut r = Rng::new(args.seed ^ 0xC18).fork(args.shard);
    let mut i = 0u64;
    for kind in MAIN_KINDS.into_iter().chain(OTHER_KINDS) {
        if no_ring && matches!(kind, Kind::Rustls20 | Kind::Rustls21 | Kind::Rustls22) {
            continue;
        }
        for limit in 1..=3usize {
            for _ in 0..(if MAIN_KINDS.contains(&kind) { n_gate } else { n_gate_other }) {
                i += 1;
                let ops_seed = r.next_u64();
                if !args.mine(i) {
                    continue;
                }
                rep.evaluations += 1;
                seen.gate_scenarios += 1;
                seen.kind_gates[kind as usize] += 1;
                match gate_case(kind, limit, ops_seed, pki.clone()) {
                    Ok((rd, pd, wk, mx)) => {
                        seen.gate_ready += rd;
                        seen.gate_pending += pd;
                        seen.gate_wakes += wk;
                        seen.max_concurrent = seen.max_concurrent.max(mx);
                        rep.nontrivial(fnv_str(&format!("gate/{kind:?}/{limit}/{ops_seed}")));
                    }
                    Err(f) => rep.violation(f.sig, f.desc, json!({"prop": "C18", "case": format!("gate/{kind:?}/{limit}"), "ops_seed": ops_seed})),
                }
            }
        }
    }
    rep.rule = "for the rustls-0.23 and OpenSSL acceptor services, and with a thinned repetition count the rustls-0.20 / 0.21 / 0.22 and native-tls ones, over an in-memory duplex under Tokio's paused clock: handshake_timeout in {100, 700, 3000, 5000} ms x clients {complete rustls client, complete OpenSSL client, garbage then idle, garbage then close, immediate disconnect, silent, \
                and for every byte position of the recorded client flights of a successful handshake: stall after n bytes / close after n bytes}; oracle in virtual time: the accept future resolves no later than the timeout with a stream, a TLS error or Timeout; a stalled handshake yields Timeout at exactly the timeout; \
                complete handshakes are followed by random payloads (0..64 KiB, split writes) in both directions compared byte for byte. Concurrency gate: per limit 1..3, on a fresh thread, random sequences of {poll_ready (+call with a silent client when Ready), end one handshake} with up to 5 concurrent calls, \
                poll_ready compared with the reference counter and the parked waker's wake count checked when a handshake ends. Distinct = distinct (acceptor, client behaviour, timeout) or gate op sequence."
        .into();
    rep.add("obs_handshakes_completed", seen.handshakes_ok);
    rep.add("obs_timeouts_at_exact_deadline", seen.timeouts_exact);
    rep.add("obs_tls_errors", seen.tls_errors);
    rep.add("obs_stall_points", seen.stall_points);
    rep.add("obs_close_points", seen.close_points);
    rep.add("obs_payload_bytes_compared", seen.payload_bytes);
    rep.add("obs_payload_exchanges", seen.payload_exchanges);
    rep.add("obs_gate_ready_answers", seen.gate_ready);
    rep.add("obs_gate_pending_answers", seen.gate_pending);
    rep.add("obs_gate_wakeups_checked", seen.gate_wakes);
    rep.add("obs_gate_scenarios", seen.gate_scenarios);
    rep.add("obs_acceptors_built_from_clone", seen.acceptors_built_from_clone);
    rep.add("obs_exchanges_over_small_server_transport", seen.small_transport_buffers);
    for (k, name) in [(Kind::Rustls20, "rustls_0_20"), (Kind::Rustls21, "rustls_0_21"), (Kind::Rustls22, "rustls_0_22"), (Kind::NativeTls, "native_tls")] {
        rep.add(&format!("obs_handshakes_completed_{name}"), seen.kind_ok[k as usize]);
        rep.add(&format!("obs_timeouts_at_exact_deadline_{name}"), seen.kind_timeouts[k as usize]);
        rep.add(&format!("obs_gate_scenarios_{name}"), seen.kind_gates[k as usize]);
    }
    rep.max("max_concurrent_handshakes", seen.max_concurrent);
}
