//! In-memory transport implementing `ActixStream`, and a relay that can throttle / cut one direction.

use std::{
    cell::RefCell,
    io,
    pin::Pin,
    rc::Rc,
    task::{Context, Poll},
};

use actix_rt::net::{ActixStream, Ready};
use tokio::io::{AsyncRead, AsyncReadExt, AsyncWrite, AsyncWriteExt, DuplexStream, ReadBuf};

pub struct Pipe(pub DuplexStream);

impl AsyncRead for Pipe {
    fn poll_read(mut self: Pin<&mut Self>, cx: &mut Context<'_>, buf: &mut ReadBuf<'_>) -> Poll<io::Result<()>> {
        Pin::new(&mut self.0).poll_read(cx, buf)
    }
}
impl AsyncWrite for Pipe {
    fn poll_write(mut self: Pin<&mut Self>, cx: &mut Context<'_>, buf: &[u8]) -> Poll<io::Result<usize>> {
        Pin::new(&mut self.0).poll_write(cx, buf)
    }
    fn poll_flush(mut self: Pin<&mut Self>, cx: &mut Context<'_>) -> Poll<io::Result<()>> {
        Pin::new(&mut self.0).poll_flush(cx)
    }
    fn poll_shutdown(mut self: Pin<&mut Self>, cx: &mut Context<'_>) -> Poll<io::Result<()>> {
        Pin::new(&mut self.0).poll_shutdown(cx)
    }
}
impl ActixStream for Pipe {
    fn poll_read_ready(&self, _: &mut Context<'_>) -> Poll<io::Result<Ready>> {
        Poll::Ready(Ok(Ready::READABLE))
    }
    fn poll_write_ready(&self, _: &mut Context<'_>) -> Poll<io::Result<Ready>> {
        Poll::Ready(Ok(Ready::WRITABLE))
    }
}

pub fn pair() -> (Pipe, Pipe) {
    let (a, b) = tokio::io::duplex(256 * 1024);
    (Pipe(a), Pipe(b))
}

/// What the relay does with the client -> server direction.
#[derive(Clone, Copy, Debug, PartialEq, Eq)]
pub enum Cut {
    /// forward everything
    None,
    /// forward the first n bytes, then hold the rest back forever (peer stalls)
    StallAfter(usize),
    /// forward the first n bytes, then close both directions
    CloseAfter(usize),
}

#[derive(Default)]
pub struct RelayLog {
    /// sizes of the chunks the client wrote, in order
    pub c2s_chunks: Vec<usize>,
    pub c2s_total: usize,
    pub s2c_total: usize,
}

/// client_end <-> [relay] <-> server_end. Returns (client end, server end, log). Must run inside a LocalSet.
pub fn relayed(cut: Cut) -> (Pipe, Pipe, Rc<RefCell<RelayLog>>) {
    relayed_cap(cut, 256 * 1024)
}

/// `server_cap`: buffer size of the transport on the server's side; a small one makes the server's writes meet
/// back-pressure (the transport answers Pending in the middle of a TLS record)
pub fn relayed_cap(cut: Cut, server_cap: usize) -> (Pipe, Pipe, Rc<RefCell<RelayLog>>) {
    let (client_end, relay_c) = tokio::io::duplex(256 * 1024);
    let (relay_s, server_end) = tokio::io::duplex(server_cap);
    let log = Rc::new(RefCell::new(RelayLog::default()));
    let (mut c_r, mut c_w) = tokio::io::split(relay_c);
    let (mut s_r, mut s_w) = tokio::io::split(relay_s);
    let l1 = log.clone();
    // c -> s with the cut
    tokio::task::spawn_local(async move {
        let mut buf = vec![0u8; 64 * 1024];
        let mut forwarded = 0usize;
        loop {
            let n = match c_r.read(&mut buf).await {
                Ok(0) | Err(_) => {
                    let _ = s_w.shutdown().await;
                    break;
                }
                Ok(n) => n,
            };
            {
                let mut l = l1.borrow_mut();
                l.c2s_chunks.push(n);
                l.c2s_total += n;
            }
            let limit = match cut {
                Cut::None => usize::MAX,
                Cut::StallAfter(k) | Cut::CloseAfter(k) => k,
            };
            let allow = n.min(limit.saturating_sub(forwarded));
            if allow > 0 {
                if s_w.write_all(&buf[..allow]).await.is_err() {
                    break;
                }
                forwarded += allow;
            }
            if forwarded >= limit {
                match cut {
                    Cut::CloseAfter(_) => {
                        let _ = s_w.shutdown().await;
                        drop(s_w);
                        drop(c_r);
                        return;
                    }
                    _ => {
                        // stall: keep the connection open, swallow whatever else the client sends
                        loop {
                            match c_r.read(&mut buf).await {
                                Ok(0) | Err(_) => {
                                    std::future::pending::<()>().await;
                                }
                                Ok(_) => {}
                            }
                        }
                    }
                }
            }
        }
    });
    let l2 = log.clone();
    tokio::task::spawn_local(async move {
        let mut buf = vec![0u8; 64 * 1024];
        loop {
            match s_r.read(&mut buf).await {
                Ok(0) | Err(_) => {
                    let _ = c_w.shutdown().await;
                    break;
                }
                Ok(n) => {
                    l2.borrow_mut().s2c_total += n;
                    if c_w.write_all(&buf[..n]).await.is_err() {
                        break;
                    }
                }
            }
        }
    });
    (Pipe(client_end), Pipe(server_end), log)
}
