//! actix-tls monitors: C18 (acceptors) and C19 (connector).

mod c18;
mod c19;
mod certs;
mod pipe;

use vh_core::{Args, Report};

fn main() {
    vh_core::install_quiet_panic_hook();
    let args = Args::parse();
    if args.prop == "__warm__" {
        return;
    }
    let _ = tokio_rustls::rustls::crypto::aws_lc_rs::default_provider().install_default();
    let mut rep = Report::new(&args);
    match args.prop.as_str() {
        "C18" => c18::run(&args, &mut rep),
        "C19" => c19::run(&args, &mut rep),
        p => {
            eprintln!("vh-tls: unknown property {p}");
            std::process::exit(2);
        }
    }
    std::process::exit(rep.finish(&args));
}
