#!/bin/sh
# Build the framework offline from files on disk (run once after a fresh restore).
set -e
cd "$(dirname "$0")"
export CARGO_NET_OFFLINE=true
exec python3 driver/setup.py
