#!/usr/bin/env python3
"""Sensitivity self-test: every repaired defect must be reported again when its fix is reverted.

  selftest.py [<id>]      applies selftest/reverts/*.diff (one entry at a time, combos where a later fix masks an
                          earlier one) to /repo, runs ./check <id> quick, restores /repo, writes selftest/results.json
Not part of the registered checks.
"""
import json, os, subprocess, sys, time
VERIF = os.path.dirname(os.path.dirname(os.path.abspath(__file__)))
R = os.path.join(VERIF, "selftest", "reverts")
ENTRIES = [
    # (name, property, [patches applied in order], expected signature substring)
    ("C16-close-wakes", "C16", ["C16-79fb48c.diff"], "C16:"),
    ("C14-close-flushes", "C14", ["C14-4a5e4f3.diff"], "C14:close-ok-with-buffered-data"),
    ("C03-dec-crossing", "C03", ["C03-578061e.diff"], "C03:"),
    ("C05-uds-unlink", "C05", ["C05-449e419.diff"], "C05:listener-unreachable:uds"),
    ("C08-stale-availability-bit", "C08", ["C08-b01c47b.diff"], "C08:"),
    ("C08-queued-connections-at-death", "C08", ["C08-d19f99d.diff"], "C08:dead-worker-never-discovered"),
    # the worker-side fix masks the ordering defect: revert both to see it again
    ("C06-stop-ordering", "C06", ["C06-970f0dd.diff", "C06-2a1d0f5.diff"], "C06:graceful-stop"),
    ("C06-worker-ends-on-closed-conn-channel", "C06", ["C06-970f0dd.diff"], "C06:"),
    ("C06-lazy-counter", "C06", ["C06-a42c097.diff"], "C06:graceful-stop"),
    ("C19-openssl-panic", "C19", ["C19-2c578aa.diff"], "C19:tls-connector-panics:openssl"),
    ("C19-native-tls-panic", "C19", ["C19-640cab0.diff"], "C19:tls-connector-panics:native_tls"),
]

def sh(cmd, cwd, timeout=3600):
    p = subprocess.run(cmd, cwd=cwd, shell=True, stdout=subprocess.PIPE, stderr=subprocess.STDOUT, text=True, timeout=timeout)
    return p.returncode, p.stdout

def main():
    only = sys.argv[1] if len(sys.argv) > 1 else None
    results = {}
    out_path = os.path.join(VERIF, "selftest", "results.json")
    if os.path.exists(out_path):
        results = json.load(open(out_path))
    for name, pid, patches, want in ENTRIES:
        if only and only not in (pid, name):
            continue
        rc, out = sh("git status --porcelain", "/repo")
        assert out.strip() == "", "/repo dirty"
        ok = True
        for p in patches:
            rc, out = sh("git apply %s" % os.path.join(R, p), "/repo")
            if rc != 0:
                rc, out = sh("patch -p1 --no-backup-if-mismatch < %s" % os.path.join(R, p), "/repo")
            ok = ok and rc == 0
        t0 = time.time()
        verdict, sigs = "patch-does-not-apply", []
        try:
            if ok:
                rc, out = sh("./check %s quick" % pid, VERIF)
                try:
                    sigs = sorted(json.load(open(os.path.join(VERIF, "evidence", pid + ".json"))).get("violation_signatures", {}))
                except Exception:
                    pass
                verdict = "caught" if rc == 1 and any(want in s for s in sigs) else ("caught-other-signature" if rc == 1 else ("inconclusive" if rc == 2 else "missed"))
        finally:
            sh("git checkout -- . && git clean -fdq", "/repo")
        results[name] = {"property": pid, "reverted": patches, "verdict": verdict, "signatures": sigs[:6], "wall_s": round(time.time() - t0, 1), "at": time.strftime("%Y-%m-%d %H:%M")}
        print(name, verdict, sigs[:3], flush=True)
        json.dump(results, open(out_path, "w"), indent=1)

if __name__ == "__main__":
    main()
