"""Per-property layer tables for ./check.

A layer = one build variant of one harness binary, run as `shards` processes.
`obligations` are counters (summed over all layers) that must be non-zero for a
run to count as "held": a run that did not observe the situations the property
is about is inconclusive, never held.
"""


def L(name, crate, variant="plain", tier=None, shards=1, timeout=900, extra=None, many_seeds=None, features=None):
    d = dict(name=name, crate=crate, variant=variant, shards=shards, timeout=timeout)
    if tier:
        d["tier"] = tier
    if extra:
        d["extra"] = extra
    if many_seeds:
        d["many_seeds"] = many_seeds
    if features:
        d["features"] = features
    return d


COMMON_ASSUMPTIONS = [
    "decides only the executions produced by this run (bounds in coverage.rule); not a proof",
    "harness crates, reference models and oracles under /verif/harness are trusted",
    "rustc/cargo, and for sanitizer layers Miri / TSan / ASan runtimes, are trusted",
]

PROPS = {
    "C16": dict(
        level="exploration",
        technique="runtime monitoring: real local-channel driven by exhaustive + random op sequences, reference queue model + counting-waker oracle; Miri as UB monitor",
        level_text="Every operation sequence up to the bound is executed on the real channel and compared step by step with a reference queue/waker model (return values, FIFO, exactly-once, wake counts of identified wakers); the same workload runs under Miri. Exploration is the right level: the API is single-threaded, so op sequences are the whole schedule space and small bounds already exercise every branch.",
        level_note="Trusted: the reference model in harness/vh-local/src/c16.rs, the counting wakers, Miri. Bounds: length <= 6 quick / <= 8 thorough exhaustive, random to 200.",
        design_ref="§5 C16",
        layers={
            "quick": [L("native", "vh-local", shards=4),
                      L("miri", "vh-local", "miri", tier="miri", shards=4, timeout=600)],
            "thorough": [L("native", "vh-local", tier="thorough", shards=16),
                         L("miri", "vh-local", "miri", tier="miri", shards=16, timeout=1500, extra={"depth": 5, "random": 4000})],
        },
        obligations=["obs_pending_polls", "obs_wakes_by_send", "obs_wakes_by_last_sender_drop", "obs_wakes_by_close",
                     "obs_none_after_close", "obs_none_after_senders_gone", "obs_send_rejected", "obs_drained_after_closure",
                     "layer_miri_obs_wakes_by_close"],
        assumptions=COMMON_ASSUMPTIONS + ["single-threaded (!Send) API: operation sequences are the complete schedule space"],
    ),
}
