"""Per-property layer tables for ./check.

A layer = one build variant of one harness binary, run as `shards` processes.
`obligations` are counters (summed over all layers) that must be non-zero for a
run to count as "held": a run that did not observe the situations the property
is about is inconclusive, never held.
"""


def L(name, crate, variant="plain", tier=None, shards=1, timeout=900, extra=None, many_seeds=None, features=None):
    d = dict(name=name, crate=crate, variant=variant, shards=shards, timeout=timeout)
    if tier:
        d["tier"] = tier
    if extra:
        d["extra"] = extra
    if many_seeds:
        d["many_seeds"] = many_seeds
    if features:
        d["features"] = features
    return d


COMMON_ASSUMPTIONS = [
    "decides only the executions produced by this run (bounds in coverage.rule); not a proof",
    "harness crates, reference models and oracles under /verif/harness are trusted",
    "rustc/cargo, and for sanitizer layers Miri / TSan / ASan runtimes, are trusted",
]

PROPS = {
    "C16": dict(
        level="exploration",
        technique="runtime monitoring: real local-channel driven by exhaustive + random op sequences, reference queue model + counting-waker oracle; Miri as UB monitor",
        level_text="Every operation sequence up to the bound is executed on the real channel and compared step by step with a reference queue/waker model (return values, FIFO, exactly-once, wake counts of identified wakers); the same workload runs under Miri. Exploration is the right level: the API is single-threaded, so op sequences are the whole schedule space and small bounds already exercise every branch.",
        level_note="Trusted: the reference model in harness/vh-local/src/c16.rs, the counting wakers, Miri. Bounds: length <= 6 quick / <= 8 thorough exhaustive, random to 200.",
        design_ref="§5 C16",
        layers={
            "quick": [L("native", "vh-local", shards=4),
                      L("miri", "vh-local", "miri", tier="miri", shards=8, timeout=600)],
            "thorough": [L("native", "vh-local", tier="thorough", shards=16),
                         L("miri", "vh-local", "miri", tier="miri", shards=16, timeout=1500, extra={"depth": 5, "random": 4000})],
        },
        obligations=["obs_pending_polls", "obs_wakes_by_send", "obs_wakes_by_last_sender_drop", "obs_wakes_by_close",
                     "obs_none_after_close", "obs_none_after_senders_gone", "obs_send_rejected", "obs_drained_after_closure",
                     "layer_miri_obs_wakes_by_close"],
        assumptions=COMMON_ASSUMPTIONS + ["single-threaded (!Send) API: operation sequences are the complete schedule space"],
    ),
    "C17": dict(
        level="exploration",
        technique="runtime monitoring: real Counter/LocalWaker driven by exhaustive + random op sequences against a reference counter/waker model with identified counting wakers; Miri as UB monitor",
        level_text="Every operation sequence up to the bound runs on the real actix_utils::counter::Counter (capacities 0..3) and local_waker::LocalWaker; available()/total()/register() results and the wake counters of identified wakers are compared with a reference model after each step. Single-threaded API, so sequences are the whole schedule space.",
        level_note="Trusted: reference model in harness/vh-local/src/c17.rs, counting wakers, Miri. Bounds: length <= 7 quick / <= 9 thorough (Counter), 6 / 8 (LocalWaker), random to 300.",
        design_ref="§5 C17",
        layers={
            "quick": [L("native", "vh-local", shards=4),
                      L("miri", "vh-local", "miri", tier="miri", shards=8, timeout=600)],
            "thorough": [L("native", "vh-local", tier="thorough", shards=16),
                         L("miri", "vh-local", "miri", tier="miri", shards=16, timeout=1500, extra={"depth": 5, "wdepth": 5, "random": 3000})],
        },
        obligations=["obs_unavailable_answers", "obs_available_answers", "obs_release_wakes_checked", "obs_over_capacity_states",
                     "obs_lw_register_true", "obs_lw_register_false", "obs_lw_wakes_delivered", "obs_lw_takes_some", "layer_miri_obs_release_wakes_checked"],
        assumptions=COMMON_ASSUMPTIONS + ["single-threaded (!Send) API: operation sequences are the complete schedule space"],
    ),
    "C20": dict(
        level="exploration",
        technique="runtime monitoring: str::from_utf8 invariant monitor on every produced ByteString + differential/panic-parity oracle against str over an exhaustive UTF-8-fragment alphabet; Miri on the from_utf8_unchecked path",
        level_text="Every byte string up to the bound over an alphabet of ASCII, 2/3/4-byte sequence fragments and invalid bytes goes through every constructor; every value produced (incl. all split_at halves and slice_ref results) is validated with str::from_utf8 and compared with the equivalent str operation, panics included. Miri runs a reduced sweep to flag misuse of the unchecked conversion.",
        level_note="Trusted: std's str as the reference, catch_unwind panic parity, Miri. Bounds: length <= 4 quick / <= 5 thorough exhaustive (12-symbol alphabet), random multi-width strings to 12 chars.",
        design_ref="§5 C20",
        layers={
            "quick": [L("native", "vh-local", shards=8),
                      L("miri", "vh-local", "miri", tier="miri", shards=8, timeout=600)],
            "thorough": [L("native", "vh-local", tier="thorough", shards=16),
                         L("miri", "vh-local", "miri", tier="miri", shards=16, timeout=1500, extra={"maxlen": 3, "random": 600})],
        },
        obligations=["obs_valid_inputs", "obs_invalid_inputs", "obs_multibyte_valid_inputs", "obs_constructor_rejects", "obs_splits_ok",
                     "obs_splits_panic_parity", "obs_slice_refs", "obs_foreign_slice_panics", "obs_ord_pairs", "layer_miri_obs_splits_panic_parity"],
        assumptions=COMMON_ASSUMPTIONS + ["only the safe API is in scope (from_bytes_unchecked is unsafe by contract)"],
    ),
    "C15": dict(
        level="exploration",
        technique="runtime monitoring: real LinesCodec decode/encode vs an independent slice-based reference splitter over an exhaustive small alphabet, two-piece feeding, round-trip law; Miri",
        level_text="All byte strings up to the bound over {a, CR, LF, C3, A9, FF} are decoded by the real codec (whole and cut in two at every position) and compared with an independent reference splitter; encode is checked to append exactly item+LF and the round-trip law is checked on all admissible short sequences.",
        level_note="Trusted: the reference splitter in harness/vh-local/src/c15.rs. One documented ambiguity (final lone CR) accepted both ways. Bounds: length <= 6 quick / <= 7 thorough.",
        design_ref="§5 C15",
        layers={
            "quick": [L("native", "vh-local", shards=4),
                      L("miri", "vh-local", "miri", tier="miri", shards=8, timeout=600)],
            "thorough": [L("native", "vh-local", tier="thorough", shards=16),
                         L("miri", "vh-local", "miri", tier="miri", shards=16, timeout=1500, extra={"maxlen": 4, "random": 400})],
        },
        obligations=["obs_lines_compared", "obs_invalid_utf8_lines", "obs_inputs_with_crlf", "obs_inputs_with_unterminated_tail", "obs_lone_cr_tails",
                     "obs_two_piece_decodes", "obs_roundtrips", "obs_empty_lines"],
        assumptions=COMMON_ASSUMPTIONS,
    ),
    "C13": dict(
        level="exploration",
        technique="runtime monitoring: real Framed::poll_next over a scripted AsyncRead (all chunkings x Pending placements x one I/O error) vs whole-buffer reference decode; fresh identified waker per poll; Miri",
        level_text="For three codecs, every short byte stream x every composition into read chunks (plus every placement of <= 2 Pendings and of one I/O error) is fed to the real Framed through a scripted transport and the produced item sequence is compared with the reference decode of the whole stream; random long streams cross the 1 KiB / 8 KiB buffer marks.",
        level_note="Trusted: the codecs' own decode on a single buffer as the reference (C15 checks LinesCodec independently), the scripted transport. Bounds: stream length <= 6 (all compositions) / 5 (Pendings) / 4 (I/O error) quick; 7/6/4 thorough.",
        design_ref="§5 C13",
        layers={
            "quick": [L("native", "vh-local", shards=8),
                      L("miri", "vh-local", "miri", tier="miri", shards=8, timeout=600)],
            "thorough": [L("native", "vh-local", tier="thorough", shards=16),
                         L("miri", "vh-local", "miri", tier="miri", shards=16, timeout=1500, extra={"la": 4, "random": 30})],
        },
        obligations=["obs_frames_compared", "obs_pending_polls", "obs_io_errors_surfaced", "obs_decode_errors_surfaced",
                     "obs_end_of_stream_error_cases", "obs_none_stability_polls", "obs_frames_over_8k", "layer_miri_obs_pending_polls"],
        assumptions=COMMON_ASSUMPTIONS,
    ),
    "C14": dict(
        level="exploration",
        technique="runtime monitoring: real Framed Sink over a scripted AsyncWrite (partial writes, Pending, zero, error); byte-stream conservation + 'success => nothing buffered' shadow model checked after every call; Miri",
        level_text="Every contract-respecting interleaving of poll_ready/start_send/poll_flush/poll_close up to the bound is run against every short transport script; after each call the bytes the transport received must be a prefix of the accepted items' encodings, success of flush/close must mean nothing is buffered and the transport was flushed/shut down, poll_ready must track the 8 KiB mark, and zero writes / errors must surface.",
        level_note="Trusted: the codec's encode on a separate buffer as the expected encoding, the scripted transport. Bounds: <= 6 ops x write scripts <= 3 quick; 7 x 4 thorough; random to 200 ops.",
        design_ref="§5 C14",
        layers={
            "quick": [L("native", "vh-local", shards=16),
                      L("miri", "vh-local", "miri", tier="miri", shards=8, timeout=600)],
            "thorough": [L("native", "vh-local", tier="thorough", shards=16, timeout=2400),
                         L("miri", "vh-local", "miri", tier="miri", shards=16, timeout=1500, extra={"oplen": 4, "wlen": 2, "random": 200})],
        },
        obligations=["obs_items_accepted", "obs_flush_ok", "obs_close_ok", "obs_close_ok_with_pending_data", "obs_pending_results",
                     "obs_ready_after_backpressure", "obs_ready_below_mark", "obs_write_zero_errors", "obs_transport_errors",
                     "layer_miri_obs_close_ok_with_pending_data"],
        assumptions=COMMON_ASSUMPTIONS,
    ),
    "C11": dict(
        level="exploration",
        technique="runtime monitoring: generated combinator trees (type-erased dynamic + fully typed static family) executed on the real actix-service combinators and compared with a reference interpreter (result, ordered call/mapper event log, factory init events, first init error); Miri on the pin-projection code",
        level_text="Combinator expression trees up to depth 3 over scripted leaf services/factories are built with the real combinators, driven by a strict manual executor and compared with a 200-line recursive reference interpreter: response/error, the ordered log of leaf calls and mapper invocations with their arguments, each inner factory invoked once with the supplied config, first init error.",
        level_note="Trusted: the reference interpreter (eval/finit in harness/vh-local/src/c11.rs), the scripted leaves. Dynamic trees pass through boxed::service at every node (the static family covers un-erased types). Bounds: exhaustive depth<=1 (+3-leaf and_then chains) x 36 leaf scripts, random depth<=3.",
        design_ref="§5 C11",
        engine="vh-local",
        layers={
            "quick": [L("native", "vh-local", shards=8),
                      L("miri", "vh-local", "miri", tier="miri", shards=8, timeout=600)],
            "thorough": [L("native", "vh-local", tier="thorough", shards=16),
                         L("miri", "vh-local", "miri", tier="miri", shards=16, timeout=1500, extra={"random": 1200, "random_f": 1200})],
        },
        obligations=["obs_calls", "obs_call_ok", "obs_call_err", "obs_events_compared", "obs_init_ok", "obs_init_err", "obs_init_same_round_errors",
                     "obs_static_typed_trees", "layer_miri_obs_calls", "layer_miri_obs_init_ok"],
        assumptions=COMMON_ASSUMPTIONS + ["TransformExt::map_init_err is unreachable through the public API for ordinary transforms (blanket impl only for T: Transform<T, Req>) and is not driven"],
    ),
    "C12": dict(
        level="exploration",
        technique="runtime monitoring: leaf-side poll-discipline monitors (polled-after-completion, waker identity per poll, readiness conjunction, lost-wake-up via strict executor) on generated combinator trees; Miri",
        level_text="The same generated trees as C11, observed from the leaves: every poll of every scripted leaf records the identity of the waker it was given; a strict executor re-polls only after the waker of the previous poll was woken. Rules: Ready(Ok) only if every leaf reported ready in that poll, inner readiness errors surface (mapped), Pending implies every still-pending inner was polled with the current waker, no inner future is polled after completion, Pending only while an inner is pending, and waking the inner wakers wakes the task.",
        level_note="Trusted: scripted leaves and the strict executor in harness/vh-core/src/exec.rs. Strictness note: Ready(Ok) is required to rest on a poll of every inner service in the same call (all combinators in scope forward readiness on every call).",
        design_ref="§5 C12",
        engine="vh-local",
        layers={
            "quick": [L("native", "vh-local", shards=8),
                      L("miri", "vh-local", "miri", tier="miri", shards=8, timeout=600)],
            "thorough": [L("native", "vh-local", tier="thorough", shards=16),
                         L("miri", "vh-local", "miri", tier="miri", shards=16, timeout=1500, extra={"random": 1200, "random_f": 1200})],
        },
        obligations=["obs_ready_pending_rounds", "obs_ready_errors_checked", "obs_ready_ok", "obs_call_pending_polls", "obs_waker_identity_checks",
                     "obs_wake_progress_checks", "obs_init_pending_polls", "obs_leaf_future_polls", "layer_miri_obs_waker_identity_checks"],
        assumptions=COMMON_ASSUMPTIONS,
    ),
    "C09": dict(
        level="exploration",
        technique="runtime monitoring: randomized multi-thread System/Arbiter stop scenarios with a result/termination oracle and quiescence-proved stuck detection; Miri many-seeds (data races, UB) and ThreadSanitizer on the same workload",
        level_text="Seeded scenarios create a real System with 0..3 arbiters in assorted states, issue one or two stop_with_code calls from the system thread, an arbiter thread or a foreign thread (ordered by the harness or racing), and check the code returned by run/run_with_code, the Ok/Err mapping of run, and that every arbiter created before the stop ends its loop (join returns; a dropped arbiter releases its parked task). The same binary runs under Miri with many seeds and under TSan.",
        level_note="Trusted: the harness's ordering of 'ordered' stops (thread join / completion flags), /proc-based quiescence proof for 'stuck' (a watchdog alone never yields a violation). Interleavings are those the OS scheduler, jitter and Miri's seeds produce.",
        design_ref="§5 C09",
        engine="vh-rt",
        layers={
            "quick": [L("native", "vh-rt", shards=8, extra={"n": 24000}),
                      L("miri", "vh-rt", "miri", tier="miri", shards=12, timeout=900, extra={"n": 72})],
            "thorough": [L("native", "vh-rt", tier="thorough", shards=16, timeout=2400),
                         L("tsan", "vh-rt", "tsan", tier="tsan", shards=8, timeout=1800),
                         L("miri", "vh-rt", "miri", tier="miri", shards=16, timeout=2400, extra={"n": 640})],
        },
        obligations=["obs_arbiters_created", "obs_joins_checked", "obs_dropped_arbiters_observed", "obs_early_stopped_arbiters",
                     "obs_ordered_or_single_stop_codes_checked", "obs_racing_first_won", "obs_racing_second_won", "obs_run_err_for_nonzero",
                     "obs_run_ok_for_zero", "obs_stops_from_arbiter_thread", "obs_stops_from_foreign_thread", "layer_miri_obs_joins_checked"],
        assumptions=COMMON_ASSUMPTIONS,
    ),
    "C10": dict(
        level="exploration",
        technique="runtime monitoring: per-task execution stamps (entry count, start sequence, thread, current system/arbiter) written to relaxed atomics, checked after join against FIFO / at-most-once / thread-identity / nothing-after-stop rules; Miri many-seeds and ThreadSanitizer",
        level_text="Seeded command sequences (spawn, spawn_fn, stop; tasks that complete, pend, panic, spawn a nested probe) are sent to a real arbiter from 1..4 threads in barrier-separated phases; every task stamps its execution into per-task atomics and the stamps are checked after join: FIFO per sender and across phases, at most one entry, the arbiter's own thread, System::current()/Arbiter::current() identity, nothing sent after a returned stop() starts, spawn false once the arbiter is gone, parked tasks dropped when join returns, block_on returns its future's output.",
        level_note="Trusted: the barrier/ticket ordering in the harness; relaxed atomics keep the monitors from adding synchronisation on the arbiter thread. Tasks sent before a stop may legitimately not start; only the FIFO and after-stop rules are applied to them.",
        design_ref="§5 C10",
        engine="vh-rt",
        layers={
            "quick": [L("native", "vh-rt", shards=8, extra={"n": 16000}),
                      L("miri", "vh-rt", "miri", tier="miri", shards=12, timeout=900, extra={"n": 72})],
            "thorough": [L("native", "vh-rt", tier="thorough", shards=16, timeout=2400),
                         L("tsan", "vh-rt", "tsan", tier="tsan", shards=8, timeout=1800),
                         L("miri", "vh-rt", "miri", tier="miri", shards=16, timeout=2400, extra={"n": 640})],
        },
        obligations=["obs_tasks_sent", "obs_tasks_started", "obs_fifo_pairs_same_sender", "obs_fifo_pairs_cross_phase", "obs_tasks_sent_after_stop_checked",
                     "obs_spawn_false_after_gone", "obs_thread_identity_checks", "obs_nested_probes_landed", "obs_parked_tasks_dropped_at_join",
                     "obs_panicking_tasks_started", "obs_scenarios_with_stop", "obs_system_arbiter_scenarios", "obs_block_on_values",
                     "layer_miri_obs_thread_identity_checks"],
        assumptions=COMMON_ASSUMPTIONS,
    ),
    "C02": dict(
        level="exploration",
        technique="runtime monitoring: per-worker in-flight shadow recomputed from Dispatch / GuardDropBegin hook events and asserted at every Dispatch on a real multi-worker server, plus a boundary-only service-concurrency monitor; failpoints widen the dec-before-inc window",
        level_text="A real server (accept thread, worker threads, loopback TCP/UDS) is driven through saturate / queue / release phases and concurrent-release stress; the monitor recomputes 'dispatched and not released' per worker from the ordered hook log and asserts it never exceeds the limit at any Dispatch, that nothing is dispatched while all workers are saturated, and (without hooks) that a worker thread never has more than `limit` service calls started and not ended.",
        level_note="Soundness of the event placement is argued in DESIGN.md §5 C02 (Dispatch is logged before the send, GuardDropBegin before the decrement). No faults are injected in these runs. Limits 1..4, workers 1..3.",
        design_ref="§5 C02",
        engine="vh-server",
        layers={
            "quick": [L("hooks", "vh-server", "hooks", shards=8, extra={"n": 640}, timeout=900)],
            "thorough": [L("hooks", "vh-server", "hooks", tier="thorough", shards=16, extra={"n": 16000}, timeout=2400)],
        },
        obligations=["obs_quiescent_points", "obs_saturations", "obs_dispatch_bound_checks", "obs_boundary_concurrency_checks",
                     "obs_quiescent_with_pending_and_no_spare", "obs_failpoint_delays_fired", "obs_stress_phases", "obs_release_logged_before_next_accept_step"],
        assumptions=COMMON_ASSUMPTIONS + ["hooks in actix-server (--cfg actix_net_verif) only add event emission, failpoint sleeps between critical sections and probes; the log mutex adds synchronisation the production build does not have (TSan layers therefore run without it)",
                                          "Linux loopback TCP and Unix-domain sockets; epoll semantics as implemented by mio 1.0"],
    ),
    "C03": dict(
        level="exploration",
        technique="runtime monitoring: bounded-progress invariant ('pending connection AND free slot on a live worker => dispatched') evaluated at accept-quiescent points reached by a logical barrier (guard-drop completion, no-op command ping, idle snapshot, pick-up); exhaustive reference-model check of the real Counter / guard through probes; Miri on the probes",
        level_text="'Eventually dispatched' is restated as: after the barrier that proves the accept thread and the workers have processed everything that causally precedes it, no connection may be waiting in a listener backlog while a live worker has a free slot. The harness saturates, queues and releases connections one at a time (and concurrently, with failpoints at send<->inc and dec<->wake) for every limit 1..4 x workers 1..3 and checks the rule on the idle snapshot after each step. The real Counter is also checked exhaustively against the reference rule (inc reports saturation exactly at the limit, dec reports the crossing exactly when leaving it).",
        level_note="The decision is made in logical steps (barrier reached), never by a deadline; a barrier that cannot be reached is a violation only when the process is provably quiescent. TCP accept-queue occupancy is confirmed through /proc/net/tcp before a barrier.",
        design_ref="§5 C03",
        engine="vh-server",
        layers={
            "quick": [L("hooks", "vh-server", "hooks", shards=8, extra={"n": 640}, timeout=900),
                      L("miri", "vh-server", "miri-hooks", tier="miri", shards=4, timeout=900)],
            "thorough": [L("hooks", "vh-server", "hooks", tier="thorough", shards=16, extra={"n": 16000}, timeout=2400),
                         L("miri", "vh-server", "miri-hooks", tier="miri", shards=8, timeout=1500)],
        },
        obligations=["obs_quiescent_points", "obs_saturations", "obs_releases_after_saturation", "obs_redispatch_after_release",
                     "obs_probe_saturations", "obs_probe_notifications_expected", "obs_probe_guard_notifications", "obs_probe_two_thread_notifications",
                     "obs_failpoint_delays_fired", "obs_stress_phases"],
        assumptions=COMMON_ASSUMPTIONS + ["hooks in actix-server (--cfg actix_net_verif) only add event emission, failpoint sleeps between critical sections and probes; the log mutex adds synchronisation the production build does not have (TSan layers therefore run without it)",
                                          "Linux loopback TCP and Unix-domain sockets; epoll semantics as implemented by mio 1.0"],
    ),
    "C04": dict(
        level="exploration",
        technique="runtime monitoring: window-distinctness checker over the Dispatch hook sequence of a real server, refill-on-release and available-set-coverage rules at quiescent points; exhaustive differential check of the real Availability bitset (all 512 indices, all ordered pairs) against Vec<bool>; Miri on the bitset probe",
        level_text="While no worker is saturated any W consecutive dispatches must hit W distinct workers; at full saturation all workers must be exactly full; a slot released by one worker is refilled on that worker; when every worker has exactly one free slot the next W dispatches cover all workers. The availability bitset is exercised through a probe for every index 0..511 and every ordered pair, plus random sequences against a Vec<bool> model; index 512 must be rejected.",
        level_note="The oracle never predicts which worker is next, only distinctness / coverage, so any rotation start is accepted. 512 real workers are not run (probe only).",
        design_ref="§5 C04",
        engine="vh-server",
        layers={
            "quick": [L("hooks", "vh-server", "hooks", shards=8, extra={"n": 640}, timeout=900),
                      L("miri", "vh-server", "miri-hooks", tier="miri", shards=8, timeout=900)],
            "thorough": [L("hooks", "vh-server", "hooks", tier="thorough", shards=16, extra={"n": 16000}, timeout=2400),
                         L("miri", "vh-server", "miri-hooks", tier="miri", shards=16, timeout=1500)],
        },
        obligations=["obs_rr_windows_checked", "obs_rr_partial_sets_checked", "obs_saturations", "obs_redispatch_after_release",
                     "obs_probe_single_indices", "obs_probe_index_pairs", "obs_probe_random_ops"],
        assumptions=COMMON_ASSUMPTIONS + ["hooks in actix-server (--cfg actix_net_verif) only add event emission, failpoint sleeps between critical sections and probes; the log mutex adds synchronisation the production build does not have (TSan layers therefore run without it)",
                                          "Linux loopback TCP and Unix-domain sockets; epoll semantics as implemented by mio 1.0"],
    ),
    "C01": dict(
        level="exploration",
        technique="runtime monitoring: exactly-once / routing / conservation checker over the ordered history {client connect, accept, dispatch, service call, identified, end, close} of a real multi-listener server under concurrent clients, pause/resume and stop; fd-conservation monitor",
        level_text="Every harness connection carries a unique id that the service reads back, so the log identifies which call served which connect. A real server with 1..3 workers and 1..2 listeners (TCP, UDS, mixed) is stressed by 2..8 client threads (hold, finish, abort), optionally paused and resumed, brought to a barrier-reached quiescent point, then stopped with connections still queued. Oracles: each id identified at most once and by an instance of its own listener's service; accepted = dispatched (+ dropped-no-workers, which must be 0); no open client is closed unserved while the server runs; unserved clients are explained by backlog and capacity; after shutdown every socket is closed, nothing is served after a graceful stop resolved, and the process's open-fd count is back to its starting value.",
        level_note="No faults are injected (C08 owns them). Clients that abort before being accepted are legitimately seen by the service as anonymous, immediately ended calls.",
        design_ref="§5 C01",
        engine="vh-server",
        layers={
            "quick": [L("hooks", "vh-server", "hooks", shards=12, extra={"n": 240}, timeout=900)],
            "thorough": [L("hooks", "vh-server", "hooks", tier="thorough", shards=16, extra={"n": 6000}, timeout=3000)],
        },
        obligations=["obs_connections", "obs_served", "obs_unserved_closed_at_shutdown", "obs_queued_when_stop_issued", "obs_routing_checks",
                     "obs_quiescent_points", "obs_fd_conservation_checks", "obs_multi_listener_scenarios", "obs_aborted_by_client",
                     "obs_failpoint_delays_fired", "obs_pause_resume_cycles"],
        assumptions=COMMON_ASSUMPTIONS + ["hooks in actix-server (--cfg actix_net_verif) only add event emission, failpoint sleeps between critical sections and probes; the log mutex adds synchronisation the production build does not have (TSan layers therefore run without it)",
                                          "Linux loopback TCP and Unix-domain sockets; epoll semantics as implemented by mio 1.0"],
    ),
    "C05": dict(
        level="fault_enumeration",
        technique="runtime monitoring with fault injection: enumerated + random command/fault sequences (pause, resume, connect, injected accept errors of six kinds, back-off waits) against a real server; shadow pause/registration state machine compared with the accept loop's idle snapshot on a consistent cut of the hook log; boundary connectability check",
        level_text="The scenario space is a bounded grammar: listener kind {TCP, UDS} x failpoints {off, on} x every sequence of length 1..4 over {pause, resume, connect, inject EMFILE, inject ECONNABORTED, wait past the back-off} (6216 scenarios, walked completely by the thorough tier, sampled by quick) plus random sequences of length 1..5 over two listeners and all six errno kinds. Accept errors are injected at the listener's accept() through a guarded hook; after every step the accept thread is brought to an idle snapshot and the invariants are evaluated on the log prefix ending there.",
        level_note="'Once a pause has taken effect' is anchored to the accept thread's own Interest{pause} event. Only the injected errno values are covered; a real EMFILE is not produced. The documented shortening of a back-off by pause+resume is accepted.",
        design_ref="§5 C05",
        engine="vh-server",
        layers={
            "quick": [L("hooks", "vh-server", "hooks", shards=16, extra={"n": 320}, timeout=900)],
            "thorough": [L("hooks", "vh-server", "hooks", tier="thorough", shards=16, extra={"n": 3000}, timeout=3000)],
        },
        obligations=["obs_quiescent_points", "obs_effective_pauses", "obs_effective_resumes", "obs_idempotent_commands", "obs_nontransient_errors_consumed",
                     "obs_per_connection_errors_consumed", "obs_backoffs_observed", "obs_backoffs_expired_and_rearmed", "obs_connects_while_paused",
                     "obs_served_after_resume_or_backoff", "obs_uds_connects", "obs_tcp_connects", "obs_errors_injected_while_paused", "enumerated_scenarios_run"],
        assumptions=COMMON_ASSUMPTIONS + ["hooks in actix-server (--cfg actix_net_verif) only add event emission, failpoint sleeps between critical sections and probes; the log mutex adds synchronisation the production build does not have (TSan layers therefore run without it)",
                                          "Linux loopback TCP and Unix-domain sockets; epoll semantics as implemented by mio 1.0"],
    ),
}
