#!/usr/bin/env python3
"""Seeded (independently written) breaking changes.

  seeded.py verify <id> <name> <worktree> <mutant-dir> <crate> [--features f]
      confirm in the scratch worktree: existing tests pass with the patch, the demonstration fails with it and
      passes without it; then copy patch + demonstration + meta.json to /verif/seeded/<id>/<name>/
  seeded.py eval <id> [<name>] [--tier quick|thorough]
      apply the patch to /repo, run ./check <id> <tier>, undo the patch, record the outcome in meta.json

Nothing here is part of the registered checks.
"""
import json, os, shutil, subprocess, sys, time, glob

VERIF = os.path.dirname(os.path.dirname(os.path.abspath(__file__)))
ENV = dict(os.environ, CARGO_NET_OFFLINE="true", RUST_BACKTRACE="0")


def sh(cmd, cwd, timeout=1800, env=None):
    p = subprocess.run(cmd, cwd=cwd, shell=True, stdout=subprocess.PIPE, stderr=subprocess.STDOUT, text=True, timeout=timeout, env=env or ENV)
    return p.returncode, p.stdout


def verify(pid, name, wt, mdir, crate, features=None):
    env = dict(ENV, CARGO_TARGET_DIR=os.path.join(wt, "target"))
    feat = (" --features " + features) if features else ""
    patch = os.path.join(mdir, "patch.diff")
    demos = [f for f in glob.glob(os.path.join(mdir, "*.rs"))]
    assert os.path.exists(patch) and demos, "patch.diff and a demo .rs are required"
    demo = demos[0]
    stem = os.path.splitext(os.path.basename(demo))[0]
    tests_dir = os.path.join(wt, crate, "tests")
    os.makedirs(tests_dir, exist_ok=True)
    res = {}
    sh("git checkout -- . && git clean -fdq -- %s/tests" % crate, wt)
    rc, out = sh("git apply --check %s" % patch, wt)
    assert rc == 0, "patch does not apply in its worktree: " + out
    # 1. existing tests with the patch
    sh("git apply %s" % patch, wt)
    rc, out = sh("cargo test -p %s --offline%s 2>&1 | tail -40" % (crate, feat), wt, env=env)
    res["existing_tests_with_patch"] = "pass" if ("FAILED" not in out and "error" not in out.split("test result")[0][-400:] and "test result: ok" in out) else "FAIL"
    res["existing_tests_tail"] = out[-600:]
    # 2. demo with the patch
    os.makedirs(tests_dir, exist_ok=True)
    shutil.copy(demo, os.path.join(tests_dir, stem + ".rs"))
    rc, out = sh("timeout 600 cargo test -p %s --offline%s --test %s 2>&1 | tail -30" % (crate, feat, stem), wt, env=env)
    res["demo_with_patch"] = "fail" if ("test result: FAILED" in out or "FAILED" in out or "panicked" in out) else ("pass" if "test result: ok" in out else "unknown")
    res["demo_with_patch_tail"] = out[-800:]
    # 3. demo without the patch
    sh("git checkout -- .", wt)
    rc, out = sh("timeout 600 cargo test -p %s --offline%s --test %s 2>&1 | tail -30" % (crate, feat, stem), wt, env=env)
    res["demo_without_patch"] = "pass" if ("test result: ok" in out and "FAILED" not in out) else "fail"
    res["demo_without_patch_tail"] = out[-400:]
    os.remove(os.path.join(tests_dir, stem + ".rs"))
    ok = res["existing_tests_with_patch"] == "pass" and res["demo_with_patch"] == "fail" and res["demo_without_patch"] == "pass"
    print(json.dumps({k: v for k, v in res.items() if not k.endswith("_tail")}), "=> confirmed" if ok else "=> NOT confirmed")
    if not ok:
        print(res["existing_tests_tail"][-300:], "\n----\n", res["demo_with_patch_tail"][-300:], "\n----\n", res["demo_without_patch_tail"][-300:])
        return False
    dst = os.path.join(VERIF, "seeded", pid, name)
    os.makedirs(dst, exist_ok=True)
    shutil.copy(patch, os.path.join(dst, "patch.diff"))
    shutil.copy(demo, os.path.join(dst, os.path.basename(demo)))
    readme = os.path.join(mdir, "README.md")
    if os.path.exists(readme):
        shutil.copy(readme, os.path.join(dst, "README.agent.md"))
    meta = {
        "property": pid,
        "name": name,
        "crate": crate,
        "features": features,
        "origin": "written by an independent sub-agent that saw only the property text and a scratch worktree of /repo",
        "demonstration": os.path.basename(demo),
        "how_to_run_demo": "copy the .rs file into %s/tests/ and run `cargo test -p %s --offline%s --test %s`" % (crate, crate, feat, stem),
        "confirmed_by_me": {
            "existing_tests_with_patch": res["existing_tests_with_patch"],
            "demo_with_patch": res["demo_with_patch"],
            "demo_without_patch": res["demo_without_patch"],
            "where": "scratch worktree " + wt + " (removed afterwards)",
            "at": time.strftime("%Y-%m-%d %H:%M"),
        },
        "needs_to_manifest": "",
        "breaks": "",
        "check_results": {},
    }
    json.dump(meta, open(os.path.join(dst, "meta.json"), "w"), indent=1)
    return True


def evaluate(pid, name=None, tier="quick"):
    base = os.path.join(VERIF, "seeded", pid)
    names = [name] if name else sorted(os.listdir(base))
    for n in names:
        d = os.path.join(base, n)
        meta = json.load(open(os.path.join(d, "meta.json")))
        rc, out = sh("git status --porcelain", "/repo")
        assert out.strip() == "", "/repo has uncommitted changes"
        rc, out = sh("git apply %s" % os.path.join(d, "patch.diff"), "/repo")
        if rc != 0:
            # patches were written against an earlier HEAD: try a 3-way / fuzzy application
            rc, out = sh("patch -p1 --no-backup-if-mismatch < %s" % os.path.join(d, "patch.diff"), "/repo")
        if rc != 0:
            print(pid, n, "patch does not apply to current /repo:", out[-300:])
            sh("git checkout -- . && git clean -fdq", "/repo")
            meta["check_results"][tier] = {"applies": False}
            json.dump(meta, open(os.path.join(d, "meta.json"), "w"), indent=1)
            continue
        t0 = time.time()
        try:
            rc, out = sh("./check %s %s" % (pid, tier), VERIF, timeout=5400, env=dict(ENV, VERIF_SEED=os.environ.get("VERIF_SEED", "1")))
        finally:
            sh("git checkout -- . && git clean -fdq", "/repo")
        viol = [l for l in out.splitlines() if l.startswith("VIOLATION")]
        sigs = []
        ev = os.path.join(VERIF, "evidence", pid + ".json")
        try:
            sigs = sorted(json.load(open(ev)).get("violation_signatures", {}).keys())
        except Exception:
            pass
        verdict = "caught" if rc == 1 and viol else ("inconclusive" if rc == 2 else "missed")
        meta["check_results"][tier] = {"applies": True, "verdict": verdict, "exit": rc, "signatures": sigs[:8], "wall_s": round(time.time() - t0, 1),
                                       "cmd": "git -C /repo apply seeded/%s/%s/patch.diff; ./check %s %s; git -C /repo checkout -- ." % (pid, n, pid, tier)}
        json.dump(meta, open(os.path.join(d, "meta.json"), "w"), indent=1)
        print(pid, n, tier, verdict, sigs[:4], "%.0fs" % (time.time() - t0))
    # evidence files were overwritten by runs on a modified tree: the caller re-runs the check on the clean tree


def table():
    """markdown table for DESIGN.md §9.4 from the meta.json files"""
    import re
    rows = []
    for pid in sorted(os.listdir(os.path.join(VERIF, "seeded"))):
        for n in sorted(os.listdir(os.path.join(VERIF, "seeded", pid))):
            d = os.path.join(VERIF, "seeded", pid, n)
            meta = json.load(open(os.path.join(d, "meta.json")))
            title = ""
            rp = os.path.join(d, "README.agent.md")
            if os.path.exists(rp):
                for line in open(rp):
                    if line.startswith("#"):
                        title = re.sub(r"^#+\s*", "", line).strip()
                        title = re.sub(r"^(C\d\d\s*)?(/|-|—|–)?\s*(mutant\s*)?m\d\s*(:|-|—|–)?\s*", "", title, flags=re.I)
                        break
            q = meta.get("check_results", {}).get("quick", {})
            t = meta.get("check_results", {}).get("thorough", {})
            sig = ", ".join("`%s`" % x for x in (q.get("signatures") or t.get("signatures") or [])[:3])
            note = meta.get("strengthened", "")
            rows.append("| %s %s | %s | %s%s | %s | %s |" % (pid, n, title.replace("|", "/")[:150], q.get("verdict", "-"), (" / thorough: " + t["verdict"]) if t else "", sig, note))
    print("| change | what it does | quick tier | reported as | check strengthened for it |")
    print("|---|---|---|---|---|")
    print("\n".join(rows))


if __name__ == "__main__":
    a = sys.argv[1:]
    if a[0] == "verify":
        feats = None
        if "--features" in a:
            i = a.index("--features")
            feats = a[i + 1]
            del a[i:i + 2]
        ok = verify(a[1], a[2], a[3], a[4], a[5], feats)
        sys.exit(0 if ok else 1)
    elif a[0] == "table":
        table()
    elif a[0] == "eval":
        tier = "quick"
        if "--tier" in a:
            i = a.index("--tier")
            tier = a[i + 1]
            del a[i:i + 2]
        evaluate(a[1], a[2] if len(a) > 2 else None, tier)
