#!/usr/bin/env python3
"""Pre-build every (variant, crate) pair the quick checks use, so that the checks only pay incremental builds."""
import os, sys, subprocess, time
sys.dont_write_bytecode = True
here = os.path.dirname(os.path.abspath(__file__))
sys.path.insert(0, here)
from props import PROPS
sys.argv = ["check"]
import importlib.machinery, importlib.util
loader = importlib.machinery.SourceFileLoader("check", os.path.join(here, "..", "check"))
spec = importlib.util.spec_from_loader("check", loader)
check = importlib.util.module_from_spec(spec)
loader.exec_module(check)
seen = set()
for pid, s in sorted(PROPS.items()):
    for tier in ("quick", "thorough"):
        for L in s["layers"][tier]:
            key = (L["variant"], L["crate"], L.get("features"), L.get("bin"))
            if key in seen:
                continue
            seen.add(key)
            t0 = time.time()
            if L["variant"].startswith("miri"):
                cmd, env = check.miri_cmd(L["crate"], 1, hooks=L["variant"] == "miri-hooks")
                r = subprocess.run(cmd + ["__warm__"], cwd=check.HARNESS, env=env, stdout=subprocess.PIPE, stderr=subprocess.STDOUT, text=True)
                print("setup: miri %s rc=%s %.1fs" % (L["crate"], r.returncode, time.time() - t0), flush=True)
            else:
                check.build(L["variant"], L["crate"], L.get("features"), L.get("bin"))
print("setup: done")
