#!/usr/bin/env python3
"""Regenerate /verif/MANIFEST.json from driver/props.py (+ driver/manifest_static.json)."""
import json, os, sys
sys.dont_write_bytecode = True
here = os.path.dirname(os.path.abspath(__file__))
sys.path.insert(0, here)
from props import PROPS
static = json.load(open(os.path.join(here, "manifest_static.json")))
checks = []
for pid in sorted(PROPS):
    s = PROPS[pid]
    checks.append({
        "property_id": pid,
        "quick_cmd": "./check %s quick" % pid,
        "thorough_cmd": "./check %s thorough" % pid,
        "evidence_file": "/verif/evidence/%s.json" % pid,
        "replay_cmd_template": "./check %s quick --replay {path}" % pid,
        "engine": s.get("engine", sorted({l["crate"] for l in s["layers"]["quick"]})[0]),
        "level_claimed": {"category": s["level"], "text": s["level_text"], "design_ref": "DESIGN.md " + s.get("design_ref", "")},
        "level_note": s["level_note"],
        "technique": s["technique"],
    })
m = dict(static)
m["checks"] = checks
claimed = set(PROPS)
m["not_applicable"] = [n for n in static.get("not_applicable", []) if n["property_id"] not in claimed]
json.dump(m, open(os.path.join(here, "..", "MANIFEST.json"), "w"), indent=1)
print("MANIFEST.json:", len(checks), "checks;", len(m["not_applicable"]), "not_applicable")
